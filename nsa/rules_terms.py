"""R19 TERMS, R17 EDGE-AGREE, R13 KERNEL-EQ, R10 ZEROBRANCH (DESIGN.md §4 C06, C07, C09, C10, C12, C18) on top of Engine D."""
from .facts import callee_name, ds, fmt, strip, walk
from .rules_layout import producer_chain, short, up
from .rules_unsafe import branch_dominates
from . import terms as T
from .terms import Unrecognised, Kernel, closure_terms, sympy_equal, show, canon_op, subst_t


def closure_of(prog, e):
    e = ds(e)
    if isinstance(e, tuple) and e[0] == "agg" and e[1] == "closure":
        return prog.bodies[e[2]], e[3]
    return None, None


def unwrap_try(e):
    """x? / x.unwrap() / x.expect() → x"""
    e = ds(e)
    for _ in range(6):
        if isinstance(e, tuple) and e[0] == "field" and e[2] == "0" and isinstance(e[1], tuple) and e[1][0] == "downcast" \
                and e[1][2] in ("Continue", "Ok", "Some"):
            inner = e[1][1]
            if isinstance(inner, tuple) and inner[0] == "call" and inner[1] == "branch":
                inner = inner[3][0]
            e = inner
            continue
        if isinstance(e, tuple) and e[0] == "call" and e[1] in ("unwrap", "expect", "ok_or", "ok_or_else", "unwrap_or_else") and e[3]:
            e = e[3][0]
            continue
        break
    return e


def success_values(body):
    """payloads of every `Ok(..)` (or returned call) definition of the return place that reaches the exit"""
    out = []
    ex = body.exits()
    if not ex:
        return out
    for d in body.reaching_defs(0, ex[0], "term"):
        e = ds(body.def_expr(0, d))
        if isinstance(e, tuple) and e[0] == "agg" and e[1] == "std::result::Result":
            if e[2] == "Ok":
                out.append((d, e[3][0]))
        elif isinstance(e, tuple) and e[0] == "call" and e[1] != "from_residual":
            out.append((d, e))
        elif isinstance(e, tuple) and e[0] == "phi":
            out.append((d, e))
    return out


class Recorder:
    """collects sympy questions so that one bridge call answers all of them"""

    def __init__(self, ctx, rule):
        self.ctx = ctx
        self.rule = rule
        self.q = []   # (key, where, a, b, ok_detail, what)

    def equal(self, key, where, impl, spec, what, label):
        self.q.append((key, where, impl, spec, what, label))

    def flush(self):
        if not self.q:
            return
        try:
            res = sympy_equal([(a, b) for _, _, a, b, _, _ in self.q])
        except Unrecognised as ex:
            for key, where, a, b, what, label in self.q:
                self.ctx.ob(self.rule, key, False, where, "anchor not recognised: %s" % ex, what="anchor not recognised")
            self.q = []
            return
        for (key, where, a, b, what, label), r in zip(self.q, res):
            ok = r.get("equal", False)
            self.ctx.ob(self.rule, key, ok, where,
                        ("%s: extracted `%s` ≡ `%s`" % (label, r.get("a"), r.get("b"))) if ok else
                        ("%s: the code computes `%s`, the definition is `%s` (difference %s%s)"
                         % (label, r.get("a", show(a)), r.get("b", show(b)), r.get("diff"), (" " + r["error"]) if "error" in r else "")),
                        what=what)
        self.q = []


def unrec(ctx, rule, key, where, ex):
    ctx.ob(rule, key, False, where, "anchor not recognised: %s" % ex, what="anchor not recognised")


# ======================================================================================= Zip … for_each kernels

def zip_foreach(prog, root):
    """the `Zip::from(p0).and(p1)….for_each(closure)` of a routine → (call bb, [producer exprs], closure body, upvar exprs)"""
    for bb, t in root.calls():
        if callee_name(t) == "for_each" and (t["callee"].get("path") or "").startswith("ndarray::Zip"):
            args = root.call_arg_exprs(bb)
            z = ds(args[0])
            prods = []
            while isinstance(z, tuple) and z[0] == "call" and z[1] in ("and", "from"):
                if z[1] == "and":
                    prods.append(z[3][1])
                    z = ds(z[3][0])
                else:
                    prods.append(z[3][0])
                    break
            prods.reverse()
            cb, ups = closure_of(prog, args[1])
            return bb, prods, cb, ups
    return None


def captured_local(root, bb_call, ups, idx):
    """the parent's local captured by `&mut` as upvar idx of the closure passed at bb_call, with its value before"""
    e = ups[idx]
    return e


def deviation_kernel(prog, name):
    """→ dict(init, update (T-term in ACC, a, b), producers ok, root, closure)"""
    from .facts import inline_calls
    from .rules_zones import helper_filter
    root = inline_calls(prog, prog.method("DeviationExt", name), helper_filter(prog))      # a shared private traversal helper is read in place
    zf = zip_foreach(prog, root)
    if zf is None:
        # fold form: Zip::from(self).and(other).fold(init, |acc, a, b| …)
        for bb, t in root.calls():
            if callee_name(t) == "fold" and (t["callee"].get("path") or "").startswith("ndarray::Zip"):
                args = root.call_arg_exprs(bb)
                z = ds(args[0])
                prods = []
                while isinstance(z, tuple) and z[0] == "call" and z[1] in ("and", "from"):
                    if z[1] == "and":
                        prods.append(z[3][1])
                        z = ds(z[3][0])
                    else:
                        prods.append(z[3][0])
                        break
                prods.reverse()
                cb, ups = closure_of(prog, args[2])
                if cb is None or len(prods) != 2:
                    break
                ret, updates = closure_terms(prog, cb, {2: ("sym", "ACC"), 3: ("sym", "a"), 4: ("sym", "b")})
                if updates:
                    raise Unrecognised("fold closure also updates captured state")

                def keepify(t_):
                    if isinstance(t_, tuple) and t_[0] == "ite":
                        return ("ite", t_[1], keepify(t_[2]), keepify(t_[3]))
                    return ("keep",) if t_ == ("sym", "ACC") else t_
                upd = keepify(ret)
                # the routine returns the fold's result
                me = ds(root.call_expr(bb))
                svs = [ds(v) for _, v in success_values(root)]
                if not svs or any(v != me for v in svs):
                    raise Unrecognised("the fold result is not what the routine returns")
                K = Kernel(prog, root, lambda e: None)
                return dict(root=root, closure=cb, producers_ok=ds(prods[0])[:2] == ("param", 1) and ds(prods[1])[:2] == ("param", 2),
                            update=upd, init=K.term(args[1]), bb=bb, upvar=None, ups=ups, returned=(True, "the fold's result is returned as is"))
        raise Unrecognised("no Zip::from(self).and(other).for_each(..) in %s" % name)
    bb, prods, cb, ups = zf
    if len(prods) != 2:
        raise Unrecognised("%d producers" % len(prods))
    p_ok = ds(prods[0])[:2] == ("param", 1) and ds(prods[1])[:2] == ("param", 2)
    syms = {2: ("sym", "a"), 3: ("sym", "b")}
    ret, updates = closure_terms(prog, cb, syms, upvar_leaf=lambda e: ("sym", "ACC"))
    if len(updates) != 1:
        raise Unrecognised("%d captured accumulators" % len(updates))
    (u, upd), = updates.items()
    init_e = ds(ups[u])
    K = Kernel(prog, root, lambda e: None)
    init = K.term(init_e)
    # the value returned: Ok(accumulator variable)
    return dict(root=root, closure=cb, producers_ok=p_ok, update=upd, init=init, bb=bb, upvar=u, ups=ups,
                returned=returns_captured_accumulator(prog.tracked(root), cb.key, u))


def returns_captured_accumulator(root, cb_key, u):
    """(ok, detail): every Ok(..) payload of `root` is a plain read of the local whose `&mut` is captured as upvar `u` of the
    closure `cb_key`, and no other definition of that local lies between the capture and the read (the value handed back is the
    accumulator exactly as the traversal left it: no scaling, doubling, off-by-one after the loop)"""
    cap = None
    for bb, si, s_ in root.assigns():
        rv = s_["rv"]
        if rv["k"] == "agg" and rv.get("closure") == cb_key and u < len(rv["fields"]):
            op = rv["fields"][u]
            if op["k"] in ("move", "copy") and not op["pl"]["p"]:
                ds_ = root.defs_of(op["pl"]["l"])
                if len(ds_) == 1 and ds_[0][0] != "entry" and ds_[0][1] != "term":
                    st = root.blocks[ds_[0][0]]["stmts"][ds_[0][1]]
                    if st["rv"]["k"] == "ref" and st["rv"].get("mut") and not st["rv"]["pl"]["p"]:
                        cap = (st["rv"]["pl"]["l"], ds_[0][0], ds_[0][1])
    if cap is None:
        return False, "the accumulator captured by the traversal closure was not found"
    X, cbb, csi = cap
    at_capture = sorted(map(str, root.reaching_defs(X, cbb, csi)))
    svs = success_values(root)
    if not svs:
        return False, "no success value"
    for d, _v in svs:
        if d[0] == "entry" or d[1] == "term":
            return False, "the success value is a call result, not the accumulator"
        st = root.blocks[d[0]]["stmts"][d[1]]
        rv = st["rv"]
        if not (rv["k"] == "agg" and rv.get("variant") == "Ok" and len(rv["fields"]) == 1):
            return False, "the success value is not Ok(accumulator)"
        op, pbb, psi = rv["fields"][0], d[0], d[1]
        for _ in range(6):
            if op["k"] not in ("move", "copy") or op["pl"]["p"]:
                return False, "Ok(..) holds a computed value, not the accumulator"
            L = op["pl"]["l"]
            if L == X:
                break
            rd = list(root.reaching_defs(L, pbb, psi))
            if len(rd) != 1 or rd[0][0] == "entry" or rd[0][1] == "term" or not isinstance(rd[0][1], int):
                return False, "Ok(..) holds `%s`, not the accumulator" % fmt(ds(_v))[:80]
            st2 = root.blocks[rd[0][0]]["stmts"][rd[0][1]]
            if st2["rv"]["k"] != "use":
                return False, "Ok(..) holds `%s`, not the accumulator itself" % fmt(ds(_v))[:80]
            op, pbb, psi = st2["rv"]["a"], rd[0][0], rd[0][1]
        else:
            return False, "copy chain too long"
        if sorted(map(str, root.reaching_defs(X, pbb, psi))) != at_capture:
            return False, "the accumulator is assigned again between the traversal and the return"
    return True, "Ok(accumulator) – read back unchanged after the traversal"


def inc_of(update):
    """update = ACC + x (or x + ACC) → x"""
    if update[0] == "add":
        if update[1] == ("sym", "ACC"):
            return update[2]
        if update[2] == ("sym", "ACC"):
            return update[1]
    return None


def rule_c09_terms(ctx, prog, rule="R19"):
    rec = Recorder(ctx, rule)
    a, b = ("real", "a"), ("real", "b")
    real = {"a": a, "b": b}
    specs = {
        "sq_l2_dist": ("pow", ("sub", a, b), 2),
        "l1_dist": ("fn", "abs", ("sub", a, b)),
    }
    for name, spec in specs.items():
        try:
            k = deviation_kernel(prog, name)
        except Unrecognised as ex:
            unrec(ctx, rule, "%s/kernel" % name, "", ex)
            continue
        w = k["root"].where()
        ctx.ob(rule, "%s/producers" % name, k["producers_ok"], w, "Zip::from(self).and(other)" if k["producers_ok"] else
               "the two Zip producers are not (self, other)", what="operands not paired as (self, other)")
        ctx.ob(rule, "%s/init" % name, k["init"] == ("num", 0), w, "accumulator starts at zero()", what="accumulator does not start at 0")
        ctx.ob(rule, "%s/returns-accumulator" % name, k["returned"][0], w, k["returned"][1], what="the distance returned is not the accumulated sum")
        inc = inc_of(k["update"])
        if inc is None:
            ctx.ob(rule, "%s/accumulates" % name, False, w, "update is `%s`, not ACC + term" % show(k["update"]), what="not a plain sum")
            continue
        inc = subst_t(inc, real)
        rec.equal("%s/term" % name, w, inc, spec, "kernel term differs from the definition", "Σ term of %s" % name)
        rec.equal("%s/symmetric" % name, w, inc, _swap(inc), "distance not symmetric", "term under a↔b")
        rec.equal("%s/zero-on-equal" % name, w, _subst_real(inc, "b", a), ("num", 0), "distance of identical arrays not 0", "term at b = a")
    # linf: running maximum of |a-b| from zero with strict >
    try:
        k = deviation_kernel(prog, "linf_dist")
        w = k["root"].where()
        upd = k["update"]
        ok_shape = upd[0] == "ite" and upd[3] == ("keep",) and upd[1][0] == "cmp"
        if ok_shape and upd[1][1] in ("<", "<=") and upd[1][2] == ("sym", "ACC"):
            # mirrored comparison `max < candidate`
            upd = ("ite", ("cmp", {"<": ">", "<=": ">="}[upd[1][1]], upd[1][3], upd[1][2]), upd[2], upd[3])
        ctx.ob(rule, "linf_dist/running-max", ok_shape and upd[1][1] in (">", ">=") and upd[1][3] == ("sym", "ACC") and upd[1][2] == upd[2],
               w, "max ← |a−b| iff |a−b| > max, else unchanged" if ok_shape else "update is `%s`" % show(upd), what="not a running maximum")
        ctx.ob(rule, "linf_dist/init", k["init"] == ("num", 0), w, "starts at zero()", what="maximum does not start at 0")
        ctx.ob(rule, "linf_dist/returns-accumulator", k["returned"][0], w, k["returned"][1], what="the distance returned is not the running maximum")
        ctx.ob(rule, "linf_dist/producers", k["producers_ok"], w, "Zip::from(self).and(other)", what="operands not paired as (self, other)")
        if ok_shape:
            cand = subst_t(upd[2], real)
            rec.equal("linf_dist/term", w, cand, ("fn", "abs", ("sub", a, b)), "candidate is not |a−b|", "candidate of linf_dist")
            rec.equal("linf_dist/symmetric", w, cand, _swap(cand), "distance not symmetric", "candidate under a↔b")
    except Unrecognised as ex:
        unrec(ctx, rule, "linf_dist/kernel", "", ex)
    # count_eq: +1 exactly on a == b
    try:
        k = deviation_kernel(prog, "count_eq")
        w = k["root"].where()
        upd = k["update"]
        ok = upd[0] == "ite" and upd[1] == ("cmp", "==", ("sym", "a"), ("sym", "b")) and upd[3] == ("keep",) and \
            inc_of(upd[2]) == ("num", 1)
        ok = ok or (upd[0] == "ite" and upd[1] == ("cmp", "==", ("sym", "b"), ("sym", "a")) and upd[3] == ("keep",) and inc_of(upd[2]) == ("num", 1))
        ctx.ob(rule, "count_eq/increment", ok, w, "count += 1 exactly when a == b" if ok else "update is `%s`" % show(upd),
               what="count_eq does not count equal positions")
        ctx.ob(rule, "count_eq/init", k["init"] == ("num", 0), w, "starts at 0", what="count does not start at 0")
        ctx.ob(rule, "count_eq/returns-accumulator", k["returned"][0], w, k["returned"][1], what="the count returned is not the counter")
        ctx.ob(rule, "count_eq/producers", k["producers_ok"], w, "Zip::from(self).and(other)", what="operands not paired as (self, other)")
    except Unrecognised as ex:
        # alternative idiom: iter().zip().filter(eq).count()
        root = prog.method("DeviationExt", "count_eq")
        ok = False
        for bb, t in root.calls():
            if callee_name(t) == "count":
                f = ds(root.call_arg_exprs(bb)[0])
                if isinstance(f, tuple) and f[0] == "call" and f[1] == "filter":
                    cb, ups = closure_of(prog, f[3][1])
                    z = ds(f[3][0])
                    if cb is not None and z[0] == "call" and z[1] == "zip":
                        r0 = producer_chain(prog, root, z[3][0])
                        r1 = producer_chain(prog, root, z[3][1])
                        cr = ds(cb.return_expr())
                        ok = r0[3] is None and r1[3] is None and ds(r0[1])[:2] == ("param", 1) and ds(r1[1])[:2] == ("param", 2) \
                            and isinstance(cr, tuple) and cr[0] == "call" and cr[1] == "eq"
        ctx.ob(rule, "count_eq/increment", ok, root.where(), "counts the pairs with a == b (iterator idiom)" if ok else
               "anchor not recognised: %s" % ex, what="anchor not recognised")
    # derived measures
    derived_specs = {
        "l2_dist": ("fn", "sqrt", ("sym", "sq_l2_dist")),
        "mean_abs_err": ("div", ("sym", "l1_dist"), ("sym", "N")),
        "mean_sq_err": ("div", ("sym", "sq_l2_dist"), ("sym", "N")),
        "root_mean_sq_err": ("fn", "sqrt", ("sym", "mean_sq_err")),
        "peak_signal_to_noise_ratio": ("mul", ("num", 10), ("fn", "log10", ("div", ("pow", ("real", "maxv"), 2), ("sym", "mean_sq_err")))),
    }
    for name, spec in derived_specs.items():
        root = prog.method("DeviationExt", name)
        try:
            # maxv is any real number (the documented function only depends on maxv²); distances and errors are ≥ 0
            t = routine_value(prog, root, param_syms={3: ("real", "maxv")} if name == "peak_signal_to_noise_ratio" else None)
            rec.equal("%s/formula" % name, root.where(), t, spec, "derived measure is not the documented function", name)
        except Unrecognised as ex:
            unrec(ctx, rule, "%s/formula" % name, root.where(), ex)
    # PSNR: the peak value is converted to f64 before any arithmetic (squaring it in the element type overflows for
    # integer images: 255² does not fit i16, 65535² does not fit i32)
    root = prog.method("DeviationExt", "peak_signal_to_noise_ratio")
    try:
        from .terms import TypedKernel
        tt = routine_value(prog, root, param_syms={3: ("real", "maxv")}, kernel_cls=TypedKernel)
        bad = []

        def scan(t, parent):
            if not isinstance(t, tuple):
                return
            if t == ("real", "maxv"):
                if not (parent is not None and parent[0] == "conv" and parent[1].startswith("to_f")):
                    bad.append(show(parent) if parent is not None else "maxv")
                return
            for x in t[1:]:
                if isinstance(x, tuple):
                    scan(x, t)
        scan(tt, None)
        ctx.ob(rule, "peak_signal_to_noise_ratio/peak-converted-first", not bad, root.where(),
               "maxv enters the formula only as maxv.to_f64(): no arithmetic in the element type" if not bad else
               "maxv takes part in element-type arithmetic before the conversion to f64 (`%s`): overflows for integer element types whose "
               "range holds maxv but not maxv²" % bad[0][:80], what="PSNR overflows for representable peaks")
    except Unrecognised as ex:
        unrec(ctx, rule, "peak_signal_to_noise_ratio/peak-converted-first", root.where(), ex)
    # count_neq = len − count_eq
    root = prog.method("DeviationExt", "count_neq")
    try:
        t = routine_value(prog, root)
        ok = t == ("sub", ("sym", "N"), ("sym", "count_eq"))
        ctx.ob(rule, "count_neq/formula", ok, root.where(), "= len(self) − count_eq" if ok else "count_neq computes `%s`" % show(t),
               what="count_neq is not len − count_eq")
    except Unrecognised as ex:
        unrec(ctx, rule, "count_neq/formula", root.where(), ex)
    rec.flush()


def _swap(t):
    return _swap_real(t)


def _swap_real(t):
    if not isinstance(t, tuple):
        return t
    if t == ("real", "a"):
        return ("real", "b")
    if t == ("real", "b"):
        return ("real", "a")
    return tuple(_swap_real(x) if isinstance(x, tuple) else x for x in t)


def _subst_real(t, name, val):
    if not isinstance(t, tuple):
        return t
    if t == ("real", name):
        return val
    return tuple(_subst_real(x, name, val) if isinstance(x, tuple) else x for x in t)


def _leaf_for(prog, body, param_syms, extra=None):
    """leaf resolver for scalar formulas of a routine: params by table, len(self) → N, delegate calls → their name,
    upvars resolved in the parent"""
    def leaf(e):
        if isinstance(e, tuple) and e[0] == "param" and e[1] in param_syms:
            return param_syms[e[1]]
        if isinstance(e, tuple) and e[0] == "upvar":
            pb, pe = up(prog, body, e)
            pe = ds(pe)
            if isinstance(pe, tuple) and pe[0] == "param":
                nm = pb.local_name(pe[1]) or "p%d" % pe[1]
                return ("sym", nm)
            if extra:
                r = extra(pb, pe)
                if r is not None:
                    return r
            return _leaf_for(prog, pb, {}, extra)(pe)
        if isinstance(e, tuple) and e[0] == "call":
            if e[1] == "len" and e[3]:
                pb, pe = up(prog, body, e[3][0])
                if ds(pe)[:2] == ("param", 1) and not pb.is_closure:
                    return ("sym", "N")
        u = unwrap_try(e)
        if u != ds(e) and isinstance(u, tuple) and u[0] == "call" and (u[2].startswith("deviation::") or u[2].startswith("summary_statistics::")
                                                                      or u[2].startswith("entropy::") or u[2].startswith("quantile::")) and \
                not (u[2] in prog.bodies and u[2] not in prog.exported):
            return ("sym", u[1])
        if isinstance(e, tuple) and e[0] == "cast" and "IntToFloat" in e[1]:
            return None
        if extra:
            return extra(body, e)
        return None
    return leaf


def routine_value(prog, root, param_syms=None, extra=None, kernel_cls=None):
    """T-term of the Ok(..) value a routine returns on its success path (single success definition);
    `g(..).map(f)` on a Result/Option is f applied to g's success value"""
    ps = dict(param_syms or {})
    for l in range(2, root.arg_count + 1):
        ps.setdefault(l, ("sym", root.local_name(l) or "p%d" % l))
    tb = prog.tracked(root)
    finals = [v for _, v in success_values(tb) if not (isinstance(v, tuple) and v[0] == "phi")]
    if len(finals) != 1:
        raise Unrecognised("%d success values" % len(finals))
    base_leaf = _leaf_for(prog, tb, ps, extra)

    def leaf(x):
        if isinstance(x, tuple) and x[0] == "call" and x[1] == "map" and len(x[3]) == 2 and ("result::Result" in x[2] or "option::Option" in x[2]):
            inner = K.term(x[3][0]) if base_leaf(x[3][0]) is None else base_leaf(x[3][0])
            f = ds(x[3][1])
            if isinstance(f, tuple) and f[0] == "agg" and f[1] == "closure":
                cb = prog.bodies[f[2]]
                # captured values are evaluated where they were computed (the routine), with the routine's own leaf table
                ret_, upd_ = closure_terms(prog, cb, {2: inner}, upvar_leaf=lambda u: K.term(f[3][u[1]]), kernel_cls=kernel_cls,
                                           extra=lambda b_, e_: _leaf_for(prog, b_, {}, extra)(e_))
                if upd_ or ret_ is None:
                    raise Unrecognised("mapping closure is not a pure value")
                return ret_
            if isinstance(f, tuple) and f[0] == "fn":
                nm = f[1].rsplit("::", 1)[-1]
                if nm in T.FN1:
                    return ("fn", nm, inner)
            raise Unrecognised("map with `%s`" % fmt(f)[:60])
        r = base_leaf(x)
        if r is not None:
            return r
        # a bare call to a sibling routine (not unwrapped with `?`): its success value
        if isinstance(x, tuple) and x[0] == "call" and (x[2].startswith("deviation::") or x[2].startswith("summary_statistics::")):
            if x[2] in prog.bodies and x[2] not in prog.exported:
                return None          # a private helper: evaluated in place by the kernel, not a named quantity
            return ("sym", x[1])
        return None
    K = (kernel_cls or Kernel)(prog, tb, leaf)
    return K.term(finals[0])


# ======================================================================================= C10 entropy family

def entropy_kernels(prog):
    """→ {name: (ite term over element symbols, root, ln dominance ok)}"""
    out = {}
    from .facts import inline_calls
    from .rules_zones import helper_filter
    if hasattr(prog, "inlined_view"):
        prog = prog.inlined_view()       # a shared `zip_map_sum(p, q, |p, q| term)` helper is read in place, its Zip closure per caller
    # entropy: -sum(mapv(self, closure))          (private helpers of the module are read in place)
    root = inline_calls(prog, prog.method("EntropyExt", "entropy"), helper_filter(prog))
    tb = prog.tracked(root)
    val = None
    for bb, t in tb.calls():
        if callee_name(t) == "neg":
            s = ds(tb.call_arg_exprs(bb)[0])
            if s[0] == "call" and s[1] == "sum":
                m = ds(s[3][0])
                if m[0] == "call" and m[1] in ("mapv", "map") and ds(m[3][0])[:2] == ("param", 1):
                    cb, ups = closure_of(prog, m[3][1])
                    ret, upd = closure_terms(prog, cb, {2: ("sym", "x")})
                    val = ("neg", ret)
                    me = ds(tb.call_expr(bb))
                    svs = [ds(v) for _, v in success_values(tb)]
                    out["entropy"] = dict(term=ret, root=root, closure=cb, negated=bool(svs) and all(v == me for v in svs), producers_ok=True)
    for name in ("kl_divergence", "cross_entropy"):
        root = inline_calls(prog, prog.method("EntropyExt", name), helper_filter(prog))
        zf = zip_foreach(prog, root)
        if zf is None:
            continue
        bb, prods, cb, ups = zf
        if len(prods) != 3:
            continue
        # closure params: result (&mut A), p, q ;  `*result = term`
        tb = prog.tracked(cb)
        def _ul(u, _cb=cb):
            # a captured closure of the routine (the per-element term handed to a shared helper) is called as that closure
            pb_, pe_ = up(prog, _cb, u)
            pe_ = ds(pe_)
            if isinstance(pe_, tuple) and pe_[:2] == ("agg", "closure") and pe_[2] in prog.bodies:
                return ("closureval", pe_[2], pe_[3], Kernel(prog, prog.tracked(pb_), lambda e_: None))
            return None
        K, tbc, paths, results, upd_sites = T.closure_function(prog, cb, {3: ("sym", "p"), 4: ("sym", "q")}, upvar_leaf=_ul)
        # stores through param 2
        items = []
        stores = []
        for (sbb, si, d) in tbc.stores():
            base = ds(tbc.local_expr(d["l"], sbb, si))
            if isinstance(base, tuple) and base[:2] == ("param", 2):
                s = tbc.blocks[sbb]["stmts"][si]
                stores.append((sbb, tbc.rvalue_expr(s["rv"], sbb, si)))
        for pi in paths:
            blks = set(pi.blocks)
            here = [s for s in stores if s[0] in blks]
            if len(here) != 1:
                raise Unrecognised("%s: %d stores to the result element on one path" % (name, len(here)))
            items.append((pi[0], K.term(T.resolve_phi(tbc, here[0][1], pi.blocks))))
        term = T.decision_tree(K, tbc, items)
        temp = ds(prods[0])
        fresh = isinstance(temp, tuple) and temp[0] == "call" and temp[1] == "zeros" and ds(temp[3][0])[0] == "call" and \
            ds(temp[3][0])[1] == "raw_dim" and ds(ds(temp[3][0])[3][0])[:2] == ("param", 1)
        p_ok = fresh and ds(prods[1])[:2] == ("param", 1) and ds(prods[2])[:2] == ("param", 2)
        # result = -sum(temp): EVERY success value of the routine must be that expression (no clamping, no second formula)
        svs = [ds(v) for _, v in success_values(root)]
        negsum = bool(svs)
        for v in svs:
            okv = isinstance(v, tuple) and v[0] == "call" and v[1] == "neg" and v[3]
            if okv:
                s = ds(v[3][0])
                okv = isinstance(s, tuple) and s[0] == "call" and s[1] == "sum" and ds(s[3][0]) == temp
            negsum = negsum and okv
        out[name] = dict(term=term, root=root, closure=cb, negated=negsum, producers_ok=p_ok)
    return out


def rule_c10(ctx, prog, rule="R19"):
    rec = Recorder(ctx, rule)
    try:
        ks = entropy_kernels(prog)
    except Unrecognised as ex:
        unrec(ctx, rule, "entropy-family/kernels", "", ex)
        return
    x, p, q = ("sym", "x"), ("sym", "p"), ("sym", "q")
    specs = {
        "entropy": (x, ("mul", x, ("fn", "ln", x))),
        "cross_entropy": (p, ("mul", p, ("fn", "ln", q))),
        "kl_divergence": (p, ("mul", p, ("fn", "ln", ("div", q, p)))),
    }
    got = {}
    for name, (mult, body_spec) in specs.items():
        k = ks.get(name)
        if k is None:
            ctx.ob(rule, "%s/kernel" % name, False, "", "anchor not recognised: no kernel extracted", what="anchor not recognised")
            continue
        w = k["root"].where()
        t = k["term"]
        ctx.ob(rule, "%s/producers" % name, k["producers_ok"], w, "operands paired in the documented order (temp, self, q)"
               if k["producers_ok"] else "Zip producers are not (fresh temp of self's shape, self, q)", what="operands mispaired")
        ctx.ob(rule, "%s/negated-sum" % name, k["negated"], w, "result = −Σ term" if k["negated"] else "result is not the negated sum of the terms",
               what="not a negated sum")
        # R10: explicit zero branch on the multiplicand
        zb = t[0] == "ite" and t[1][0] == "cmp" and t[1][1] == "==" and \
            ((t[1][2] == mult and t[1][3] == ("num", 0)) or (t[1][3] == mult and t[1][2] == ("num", 0))) and t[2] == ("num", 0)
        ctx.ob("R10", "%s/zero-branch" % name, zb, w,
               "term is `if %s == 0 {0} else {…}`" % show(mult) if zb else
               "no explicit `%s == 0 ⇒ 0` branch around the logarithm: a zero entry yields 0·ln 0 = NaN (term `%s`)" % (show(mult), show(t)),
               what="zero entries not contributing exactly zero")
        if zb:
            got[name] = t[3]
            rec.equal("%s/term" % name, w, t[3], body_spec, "kernel term differs from the definition", "non-zero branch of %s" % name)
        # ln calls dominated by the false edge of the zero test (MIR-level)
        cb = k["closure"]
        lns = [bb for bb, ct in cb.calls() if callee_name(ct) == "ln"]
        if not lns and zb:
            # the logarithm sits in a closure handed to a helper: the extracted decision tree (path-sensitive) already shows it
            # only under the `!= 0` branch
            ctx.ob("R10", "%s/ln-dominated" % name, True, cb.where(),
                   "the logarithm occurs only in the non-zero branch of the extracted decision tree (it is evaluated through a helper)")
            continue
        dom = bool(lns)
        for lb in lns:
            good = False
            for sb in cb.live_blocks():
                st = cb.term(sb)
                if st["k"] == "switch":
                    de = ds(cb.switch_discr_expr(sb))
                    if isinstance(de, tuple) and de[0] == "call" and de[1] == "eq":
                        f = [tgt for v, tgt in st["arms"] if v == 0]
                        if f and branch_dominates(cb, sb, f[0], lb):
                            good = True
            dom = dom and good
        ctx.ob("R10", "%s/ln-dominated" % name, dom, cb.where(), "every ln is dominated by the `!= 0` edge (%d site)" % len(lns) if dom else
               "a ln call is reachable when the multiplicand is zero", what="ln reachable on zero input")
    # identities on the extracted terms
    if "kl_divergence" in got:
        rec.equal("identity/KL(p,p)=0", "", subst_t(got["kl_divergence"], {"q": p}), ("num", 0), "KL(p,p) is not 0", "KL term at q = p")
    if set(got) == {"entropy", "cross_entropy", "kl_divergence"}:
        hp = subst_t(got["entropy"], {"x": p})
        rec.equal("identity/H(p,q)=H(p)+KL(p,q)", "", got["cross_entropy"], _h_identity(hp, got["kl_divergence"]),
                  "H(p,q) ≠ H(p) + KL(p,q) termwise", "cross-entropy term")
    rec.flush()


def _h_identity(hp_term, kl_term):
    # results are −Σ of the terms:  −ce = −hp − kl  ⇔ ce = hp + kl   (termwise, non-zero branch)
    return ("add", hp_term, kl_term)


# ======================================================================================= reductions (fold / for loop)

def reduction_in(prog, body, value_expr=None):
    """the accumulation a body performs, from either idiom:
         iterator.fold(init, |acc, item| step)            or        let mut acc = init; for item in iterator { acc = step }
    → dict(init=T, step=T over ACC/e0/e1…, producers=[(body, root expr)], idiom=str)"""
    tb = prog.tracked(body)
    # idiom 1: a fold call
    for bb, t in tb.calls():
        if callee_name(t) == "fold" and (t["callee"].get("trait") or "").endswith("Iterator"):
            args = tb.call_arg_exprs(bb)
            cb, ups = closure_of(prog, args[2])
            if cb is None:
                raise Unrecognised("fold with a non-closure function")
            struct, prods = T.zip_structure(prog, tb, args[0])
            syms = {2: ("sym", "ACC")}
            item = ("param", 3, cb.local_name(3))
            # closure param 3 is the item (tuple pattern): map its fields
            fields = {}

            def go(path, st):
                if isinstance(st, str):
                    fields[(3,) + path] = ("sym", st)
                    if not path:
                        syms[3] = ("sym", st)
                    return
                for i, sub in enumerate(st):
                    go(path + (str(i),), sub)
            go((), struct)
            syms.update(fields)
            ret, upd = closure_terms(prog, cb, syms)
            K = Kernel(prog, tb, _leaf_for(prog, tb, {}))
            return dict(init=K.term(args[1]), step=ret, producers=prods, idiom="fold", site=bb, body=tb, result=ds(tb.call_expr(bb)))
    # idiom 2: a for loop with one carried accumulator
    lp = T.Loop(tb)
    it = lp.iterator()
    if it is None:
        raise Unrecognised("loop is not an iterator loop")
    il, item, iinit = it
    struct, prods = T.zip_structure(prog, tb, iinit)
    isyms = T.item_symbols(item, struct)
    accs = [l for l in lp.carried if l != il and not tb.local_ty(l).startswith("bool")]
    accs = [l for l in accs if tb.local_name(l)]
    if len(accs) != 1:
        raise Unrecognised("%d loop-carried accumulators" % len(accs))
    acc = accs[0]
    phi = ds(lp.head_phi(acc))

    def leaf(e):
        if e == phi:
            return ("sym", "ACC")
        if e in isyms:
            return isyms[e]
        return _leaf_for(prog, tb, {})(e)
    K = Kernel(prog, tb, leaf)
    return dict(init=K.term(lp.init_expr(acc)), step=K.term(lp.step_expr(acc)), producers=prods, idiom="for", body=tb, acc=acc, result=phi)


def reduction_is_returned(red):
    """(ok, detail): what the body hands back is the reduction's result itself – every Ok(..) payload of a routine, the returned
    value of a closure – with nothing applied to it afterwards"""
    tb = red["body"]
    want = red["result"]
    if tb.is_closure or not any(True for _ in success_values(tb)):
        got = [ds(tb.return_expr())]
    else:
        got = [ds(v) for _, v in success_values(tb)]
    bad = [g for g in got if g != want]
    if bad:
        return False, "the value handed back is `%s`, not the reduction's result" % fmt(bad[0])[:100]
    return True, "the reduction's result is handed back unchanged"


def array_sum_leaf(prog, names):
    """leaf resolver for whole-array reductions: sum(X), mean(X) with X = parameter or map/mapv(parameter, closure)"""
    def elem_term(body, x):
        x = ds(x)
        if isinstance(x, tuple) and x[0] == "param" and x[1] in names:
            return ("sym", names[x[1]])
        if isinstance(x, tuple) and x[0] == "call" and x[1] in ("map", "mapv", "mapv_into") and len(x[3]) == 2:
            inner = elem_term(body, x[3][0])
            cb, ups = closure_of(prog, x[3][1])
            if cb is None:
                f_ = ds(x[3][1])
                if isinstance(f_, tuple) and f_[0] == "fn" and f_[1].rsplit("::", 1)[-1] in T.FN1:
                    return ("fn", f_[1].rsplit("::", 1)[-1], inner)           # a function item as the mapping: `mapv(A::ln)`
                raise Unrecognised("map with non-closure")
            ret, _ = closure_terms(prog, cb, {2: inner}, upvar_leaf=lambda e: ("sym", "^%s" % e[2]))
            return ret
        if isinstance(x, tuple) and x[0] == "call" and x[1] in ("view", "to_owned", "clone", "into_owned") and x[3]:
            return elem_term(body, x[3][0])
        raise Unrecognised("array expression `%s`" % fmt(x)[:80])

    def extra(body, e):
        if isinstance(e, tuple) and e[0] == "call" and e[1] == "sum" and len(e[3]) == 1 and "ndarray" in e[2]:
            return ("sym", "Σ[%s]" % show(canon_op(elem_term(body, e[3][0]))))
        if isinstance(e, tuple) and e[0] == "call" and e[1] == "mean" and len(e[3]) == 1 and "ndarray" in e[2]:
            return ("div", ("sym", "Σ[%s]" % show(canon_op(elem_term(body, e[3][0])))), ("sym", "N"))
        if isinstance(e, tuple) and e[0] == "call" and e[1] == "ok_or" and e[3]:
            return None
        return None
    return extra


def scalar_value(prog, root, names, e=None):
    """T-term of a scalar expression of a routine with array reductions abstracted as Σ[...] symbols; Option/Result adapters
    (map, ok_or, ?) are seen through"""
    tb = prog.tracked(root)
    extra = array_sum_leaf(prog, names)
    base_leaf = _leaf_for(prog, tb, {}, extra)

    def leaf(x):
        # Option::map(opt, closure) on scalars / ok_or
        if isinstance(x, tuple) and x[0] == "call" and x[1] == "ok_or" and x[3]:
            return K.term(x[3][0])
        if isinstance(x, tuple) and x[0] == "call" and x[1] == "map" and len(x[3]) == 2 and ("option" in x[2] or "result::Result" in x[2]):
            cb, ups = closure_of(prog, x[3][1])
            inner = K.term(x[3][0])
            if cb is None:
                f_ = ds(x[3][1])
                if isinstance(f_, tuple) and f_[0] == "fn" and f_[1].rsplit("::", 1)[-1] in T.FN1:
                    return ("fn", f_[1].rsplit("::", 1)[-1], inner)
                raise Unrecognised("map with `%s`" % fmt(f_)[:60])
            def reduction_of_capture(body_, y):
                # `captured_array.sum()` inside the mapping closure: the same reduction of the captured array in the routine
                if isinstance(y, tuple) and y[0] == "call" and y[1] in ("sum", "mean", "len") and len(y[3]) == 1:
                    a0 = ds(y[3][0])
                    if isinstance(a0, tuple) and a0[0] == "upvar":
                        return K.term(("call", y[1], y[2], (ups[a0[1]],), y[4]))
                return None
            ret, _ = closure_terms(prog, cb, {2: inner}, upvar_leaf=lambda u: K.term(ups[u[1]]), extra=reduction_of_capture)
            return ret
        r = base_leaf(x)
        if r is not None:
            return r
        # a sibling routine's result used without `?` (mapped instead): its success value
        if isinstance(x, tuple) and x[0] == "call" and x[2].startswith("summary_statistics::") and not (x[2] in prog.bodies and x[2] not in prog.exported):
            return ("sym", x[1])
        return None
    K = Kernel(prog, tb, leaf)
    if e is None:
        ex = tb.exits()
        finals = []
        for d in tb.reaching_defs(0, ex[0], "term"):
            v = ds(tb.def_expr(0, d))
            if isinstance(v, tuple) and v[0] == "agg" and v[1] == "std::result::Result" and v[2] == "Ok":
                finals.append(v[3][0])
            elif isinstance(v, tuple) and v[0] == "agg" and v[2] == "Err":
                continue
            elif isinstance(v, tuple) and v[0] == "call" and v[1] != "from_residual":
                finals.append(v)
        if len(finals) != 1:
            raise Unrecognised("%d success values" % len(finals))
        e = finals[0]
    return K.term(e)


def rule_c06(ctx, prog, rule="R19"):
    rec = Recorder(ctx, rule)
    S = lambda n: prog.method("SummaryStatisticsExt", n)
    x = ("sym", "x")
    # mean, harmonic, geometric
    for name, spec in (("mean", ("div", ("sym", "Σ[x]"), ("sym", "N"))),
                       ("harmonic_mean", ("fn", "recip", ("div", ("sym", "Σ[recip(x)]"), ("sym", "N")))),
                       ("geometric_mean", ("fn", "exp", ("div", ("sym", "Σ[ln(x)]"), ("sym", "N"))))):
        root = S(name)
        try:
            t = scalar_value(prog, root, {1: "x"})
            rec.equal("%s/formula" % name, root.where(), t, spec, "not the defined mean", name)
        except Unrecognised as ex:
            unrec(ctx, rule, "%s/formula" % name, root.where(), ex)
    # weighted_sum: Σ d·w from zero, producers (self, weights)
    ws = S("weighted_sum")
    ws_red = None
    try:
        ws_red = reduction_in(prog, ws)
        w = ws.where()
        ctx.ob(rule, "weighted_sum/init", ws_red["init"] == ("num", 0), w, "accumulator starts at zero()", what="sum does not start at 0")
        prods = ws_red["producers"]
        p_ok = len(prods) == 2 and prods[0][1][:2] == ("param", 1) and prods[1][1][:2] == ("param", 2)
        ctx.ob(rule, "weighted_sum/producers", p_ok, w, "pairs self with weights element by element (logical order)" if p_ok else
               "the reduction does not pair (self, weights): %s" % [fmt(p[1]) for p in prods], what="data not paired with weights by logical index")
        rr = reduction_is_returned(ws_red)
        ctx.ob(rule, "weighted_sum/returns-the-sum", rr[0], w, rr[1], what="weighted_sum returns something else than Σ d·w")
        inc = inc_of(ws_red["step"])
        if inc is None:
            ctx.ob(rule, "weighted_sum/accumulates", False, w, "step is `%s`, not ACC + term" % show(ws_red["step"]), what="not a plain sum")
        else:
            rec.equal("weighted_sum/term", w, inc, ("mul", ("sym", "e0"), ("sym", "e1")), "term is not d·w", "Σ term of weighted_sum (%s idiom)" % ws_red["idiom"])
    except Unrecognised as ex:
        unrec(ctx, rule, "weighted_sum/kernel", ws.where(), ex)
    # weighted_sum_axis: per lane the same kernel (KERNEL-EQ, operational)
    wsa = S("weighted_sum_axis")
    try:
        ok = False
        detail = "no map_axis(self, axis, closure)"
        for bb, t in wsa.calls():
            if callee_name(t) == "map_axis":
                a = wsa.call_arg_exprs(bb)
                cb, ups = closure_of(prog, a[2])
                if ds(a[0])[:2] == ("param", 1) and ds(a[1])[:2] == ("param", 2) and cb is not None:
                    red = reduction_in(prog, cb)
                    prods = red["producers"]
                    # producers: (lane = closure param 2, weights = parameter 3 of the routine)
                    lane_ok = prods[0][0].key == cb.key and prods[0][1][:2] == ("param", 2)
                    w_ok = prods[1][0].key == wsa.key and prods[1][1][:2] == ("param", 3)
                    same = ws_red is not None and canon_op(red["step"]) == canon_op(ws_red["step"]) and red["init"] == ws_red["init"]
                    rr = reduction_is_returned(red)
                    ok = lane_ok and w_ok and same and rr[0]
                    detail = ("each lane is reduced with the kernel of weighted_sum (operation-identical), paired with the caller's weights" if ok else
                              rr[1] if not rr[0] else
                              "lane kernel: lane producer ok=%s, weights producer ok=%s, step `%s` vs weighted_sum's `%s`"
                              % (lane_ok, w_ok, show(red["step"]), show(ws_red["step"]) if ws_red else "?"))
        ctx.ob("R13", "weighted_sum_axis/kernel-eq", ok, wsa.where(), detail, what="per-axis weighted sum is not the whole-array kernel per lane")
        sv = success_values(wsa)
        only_map = len(sv) == 1 and isinstance(sv[0][1], tuple) and sv[0][1][0] == "call" and sv[0][1][1] == "map_axis"
        ctx.ob("R13", "weighted_sum_axis/single-success-value", only_map, wsa.where(),
               "the only success value is map_axis(self, axis, lane kernel)" if only_map else
               "weighted_sum_axis has %d success values: some inputs bypass the lane kernel" % len(sv),
               what="per-axis sum bypasses the lane kernel for some inputs")
    except Unrecognised as ex:
        unrec(ctx, "R13", "weighted_sum_axis/kernel-eq", wsa.where(), ex)
    # weighted_mean = weighted_sum / Σ weights
    wm = S("weighted_mean")
    try:
        t = scalar_value(prog, wm, {2: "w"})
        rec.equal("weighted_mean/formula", wm.where(), t, ("div", ("sym", "weighted_sum"), ("sym", "Σ[w]")), "not weighted_sum / Σw", "weighted_mean")
    except Unrecognised as ex:
        unrec(ctx, rule, "weighted_mean/formula", wm.where(), ex)
    # weighted_mean_axis = weighted_sum_axis elementwise / Σ weights
    wma = S("weighted_mean_axis")
    try:
        ok = False
        detail = "no mapv_inplace/mapv_into on the per-axis weighted sum"
        tb = prog.tracked(wma)
        for bb, t in tb.calls():
            if callee_name(t) in ("mapv_inplace", "mapv_into", "mapv", "map_inplace"):
                a = tb.call_arg_exprs(bb)
                tgt = unwrap_try(a[0])
                cb, ups = closure_of(prog, a[1])
                is_wsa = isinstance(tgt, tuple) and tgt[0] == "call" and tgt[1] == "weighted_sum_axis"
                ret, _ = closure_terms(prog, cb, {2: ("sym", "v")}, upvar_leaf=lambda e: ("sym", "^" + str(e[2])))
                div_ok = ret[0] == "div" and ret[1] == ("sym", "v") and ret[2][0] == "sym"
                # the divisor is sum(weights)
                dv = ds(ups[0]) if ups else None
                dv_ok = isinstance(dv, tuple) and dv[0] == "call" and dv[1] == "sum" and ds(dv[3][0])[:2] == ("param", 3)
                # the returned array is that same array
                ok = is_wsa and div_ok and dv_ok
                detail = "= weighted_sum_axis(..)? with every element divided by weights.sum() (mirrors weighted_mean)" if ok else \
                    "target is per-axis sum=%s, closure `%s`, divisor is weights.sum()=%s" % (is_wsa, show(ret), dv_ok)
        ctx.ob("R13", "weighted_mean_axis/mirrors-weighted_mean", ok, wma.where(), detail, what="per-axis weighted mean differs from the whole-array form")
        sv = success_values(wma)
        one = len(sv) == 1
        ctx.ob("R13", "weighted_mean_axis/single-success-value", one, wma.where(), "one success value" if one else
               "weighted_mean_axis has %d success values: some inputs bypass the documented computation" % len(sv),
               what="per-axis mean bypasses the kernel for some inputs")
    except Unrecognised as ex:
        unrec(ctx, "R13", "weighted_mean_axis/mirrors-weighted_mean", wma.where(), ex)
    rec.flush()


# ======================================================================================= C07 variance / moments

def west_recurrence(prog):
    """loop of inner_weighted_var → dict(state symbols, init terms, step terms, result term)"""
    b = prog.find("summary_statistics::means::inner_weighted_var")
    tb = prog.tracked(b)
    folds = [(bb, t) for bb, t in tb.calls() if callee_name(t) == "fold" and (t["callee"].get("trait") or "").endswith("Iterator")]
    if len(folds) == 1 and not any(tb.dominates(x, x2) and x2 in tb.reachable_from(x) and x in tb.reachable_from(x2) for x in tb.live_blocks() for x2 in tb.succ(x)):
        # fold form: the running state is the accumulator tuple, replaced as a whole by the closure
        bb, t = folds[0]
        args = tb.call_arg_exprs(bb)
        struct, prods = T.zip_structure(prog, tb, args[0])
        if struct != ("e0", "e1"):
            raise Unrecognised("iterator is not zip(a, b)")
        init = ds(args[1])
        cb, ups = closure_of(prog, args[2])
        if cb is None or not (isinstance(init, tuple) and init[0] == "agg" and init[1] == "tuple"):
            raise Unrecognised("fold without a tuple state / closure")
        n = len(init[3])
        syms = {(3, "0"): ("sym", "x"), (3, "1"): ("sym", "w")}
        for i in range(n):
            syms[(2, str(i))] = ("sym", "S_f%d" % i)
        params = {l: ("sym", tb.local_name(l)) for l in range(1, tb.arg_count + 1)}
        Kc, tbc, paths, results, upd_sites = T.closure_function(
            prog, cb, syms, upvar_leaf=lambda u: (params.get(ds(ups[u[1]])[1]) if (isinstance(ds(ups[u[1]]), tuple) and ds(ups[u[1]])[0] == "param") else None))
        if upd_sites:
            raise Unrecognised("fold closure also updates captured state")
        if len(results) != 1 or results[0][0] or not (isinstance(results[0][1], tuple) and results[0][1][0] == "tuple" and len(results[0][1]) == n + 1):
            raise Unrecognised("fold closure does not return the state tuple on a single path")
        steps = results[0][1][1:]

        def pleaf(e):
            if isinstance(e, tuple) and e[0] == "param" and e[1] in params:
                return params[e[1]]
            return None
        Kp = Kernel(prog, tb, pleaf)
        state = {"f%d" % i: dict(init=Kp.term(init[3][i]), step=steps[i]) for i in range(n)}
        me = ds(tb.call_expr(bb))

        def rleaf(e):
            if isinstance(e, tuple) and e[0] == "field" and ds(e[1]) == me and str(e[2]).isdigit():
                return ("sym", "S_f%s" % e[2])
            return pleaf(e)
        Kr = Kernel(prog, tb, rleaf)
        r = ds(tb.return_expr())
        if isinstance(r, tuple) and r[0] == "agg" and r[2] == "Ok":
            res = Kr.term(r[3][0])
        elif not (tb.raw.get("output") or "").startswith("std::result::Result"):
            res = Kr.term(r)
        else:
            raise Unrecognised("result is not Ok(..)")
        return dict(state=state, result=res, producers=prods, body=tb)
    lp = T.Loop(tb)
    it = lp.iterator()
    if it is None:
        raise Unrecognised("no iterator loop in inner_weighted_var")
    il, item, iinit = it
    struct, prods = T.zip_structure(prog, tb, iinit)
    if struct != ("e0", "e1"):
        raise Unrecognised("iterator is not zip(a, b)")
    isyms = T.item_symbols(item, ("x", "w"))
    carried = [l for l in lp.carried if l != il and tb.local_name(l)]
    # a running state kept as one tuple local (`state = step(state, x, w)`): its components are the state variables
    tuple_carried = {l: len([c for c in (tb.local_ty(l) or "")[1:-1].split(",") if c.strip()])
                     for l in carried if (tb.local_ty(l) or "").startswith("(") and (tb.local_ty(l) or "").endswith(")")}
    tphis = {ds(lp.head_phi(l)): tb.local_name(l) for l in tuple_carried}
    phis = {ds(lp.head_phi(l)): ("sym", "S_" + tb.local_name(l)) for l in carried if l not in tuple_carried}
    params = {l: ("sym", tb.local_name(l)) for l in range(1, tb.arg_count + 1)}

    def leaf(e):
        if isinstance(e, tuple) and e[0] == "field" and str(e[2]).isdigit() and ds(e[1]) in tphis:
            return ("sym", "S_%s_%s" % (tphis[ds(e[1])], e[2]))
        if e in tphis:
            nm_ = tphis[e]
            n_ = [n2 for l2, n2 in tuple_carried.items() if tb.local_name(l2) == nm_][0]
            return ("tuple",) + tuple(("sym", "S_%s_%d" % (nm_, k_)) for k_ in range(n_))
        if e in phis:
            return phis[e]
        if e in isyms:
            return isyms[e]
        if isinstance(e, tuple) and e[0] == "param" and e[1] in params:
            return params[e[1]]
        return None
    K = Kernel(prog, tb, leaf)
    state = {}
    for l in carried:
        nm = tb.local_name(l)
        if l in tuple_carried:
            ti, ts = K.term(lp.init_expr(l)), K.term(lp.step_expr(l))
            n_ = tuple_carried[l]
            if not (isinstance(ti, tuple) and ti[0] == "tuple" and len(ti) == n_ + 1 and isinstance(ts, tuple) and ts[0] == "tuple" and len(ts) == n_ + 1):
                raise Unrecognised("tuple state `%s` is not initialised / updated component-wise" % nm)
            for k_ in range(n_):
                state["%s_%d" % (nm, k_)] = dict(init=ti[k_ + 1], step=ts[k_ + 1])
            continue
        state[nm] = dict(init=K.term(lp.init_expr(l)), step=K.term(lp.step_expr(l)))
    # result
    r = ds(tb.return_expr())
    if isinstance(r, tuple) and r[0] == "agg" and r[2] == "Ok":
        res = K.term(r[3][0])
    elif not (tb.raw.get("output") or "").startswith("std::result::Result"):
        res = K.term(r)            # the kernel returns the value itself
    else:
        raise Unrecognised("result is not Ok(..)")
    return dict(state=state, result=res, producers=prods, body=tb)


WEST_SCRIPT = r'''
import json, sys
import sympy as sp
req = json.load(sys.stdin)
syms = {}
def S(n):
    if n not in syms: syms[n] = sp.Symbol(n, real=True)
    return syms[n]
def conv(t):
    k = t[0]
    if k == "sym": return S(t[1])
    if k == "num": return sp.Integer(t[1]) if isinstance(t[1], int) else sp.nsimplify(t[1])
    if k == "add": return conv(t[1]) + conv(t[2])
    if k == "sub": return conv(t[1]) - conv(t[2])
    if k == "mul": return conv(t[1]) * conv(t[2])
    if k == "div": return conv(t[1]) / conv(t[2])
    if k == "neg": return -conv(t[1])
    if k == "pow": return conv(t[1]) ** int(t[2])
    raise ValueError(str(t)[:60])
st = req["state"]; names = req["names"]    # names: W, M, S variable names in the code
W, M, Sv = names["W"], names["M"], names["S"]
x, w, zero, ddof = S("x"), S("w"), S("zero"), S("ddof")
A, B, C = S("A"), S("B"), S("C")           # A = Σw, B = Σwx, C = Σwx² over the elements seen so far
cur = {"S_"+W: A, "S_"+M: B/A, "S_"+Sv: C - B**2/A}
step = {n: conv(st[n]["step"]) for n in st}
out = {}
# inductive step: substitute the invariant, compare with the invariant over A+w, B+wx, C+wx²
A2, B2, C2 = A + w, B + w*x, C + w*x**2
want = {W: A2, M: B2/A2, Sv: C2 - B2**2/A2}
ind = {}
for n in (W, M, Sv):
    got = step[n].subs({S(k): v for k, v in cur.items()}, simultaneous=True)
    ind[n] = str(sp.simplify(got - want[n]))
out["inductive"] = ind
# base case: one step from the initial state equals the invariant with A=w, B=wx, C=wx²
init = {"S_"+n: conv(st[n]["init"]).subs(zero, 0) for n in st}
base = {}
for n in (W, M, Sv):
    got = step[n].subs({S(k): v for k, v in init.items()}, simultaneous=True)
    wantb = want[n].subs({A: 0, B: 0, C: 0}) if n == W else {M: x, Sv: sp.Integer(0)}[n]
    base[n] = str(sp.simplify(got - wantb))
out["base"] = base
# result: S/(W - ddof) with the invariant equals Σw(x-xbar)²/(Σw - ddof), where Σw(x-xbar)² = C - 2 xbar B + xbar² A
res = conv(req["result"]).subs({S(k): v for k, v in cur.items()}, simultaneous=True)
xbar = B/A
defn = (C - 2*xbar*B + xbar**2*A) / (A - ddof)
out["result"] = str(sp.simplify(res - defn))
out["ddof_in_result"] = bool(conv(req["result"]).has(ddof))
json.dump(out, sys.stdout)
'''


def rule_west(ctx, prog, rule="R19"):
    import json
    import os
    import subprocess
    try:
        wr = west_recurrence(prog)
    except Unrecognised as ex:
        unrec(ctx, rule, "inner_weighted_var/recurrence", "", ex)
        return
    tb = wr["body"]
    w = tb.where()
    st = wr["state"]
    # identify the three state variables by their update shape: W' = W + w ; the one divided into the result; the mean
    names = {}
    for n, s in st.items():
        if s["step"] == ("add", ("sym", "S_" + n), ("sym", "w")):
            names["W"] = n
    res = wr["result"]
    if res[0] == "div" and res[1][0] == "sym" and res[1][1].startswith("S_"):
        names["S"] = res[1][1][2:]
    rest = [n for n in st if n not in names.values()]
    if len(rest) == 1:
        names["M"] = rest[0]
    ok = set(names) == {"W", "M", "S"} and len(st) == 3
    ctx.ob(rule, "inner_weighted_var/skeleton", ok, w,
           "one pass over zip(arr, weights) with state (Σw=%s, mean=%s, S=%s): %s" % (
               names.get("W"), names.get("M"), names.get("S"), {n: show(s["step"]) for n, s in st.items()}) if ok else
           "anchor not recognised: loop state is %s, result %s" % ({n: show(s["step"]) for n, s in st.items()}, show(res)),
           what="anchor not recognised")
    prods = wr["producers"]
    p_ok = len(prods) == 2 and prods[0][1][:2] == ("param", 1) and prods[1][1][:2] == ("param", 2)
    ctx.ob(rule, "inner_weighted_var/producers", p_ok, w, "data paired with weights by logical index" if p_ok else
           "loop does not pair (arr, weights)", what="data not paired with weights")
    if not ok:
        return
    req = {"state": {n: {"init": T.to_json(s["init"]), "step": T.to_json(s["step"])} for n, s in st.items()},
           "names": names, "result": T.to_json(res)}
    p = subprocess.run(["python3-vt", "-c", WEST_SCRIPT], input=json.dumps(req), stdout=subprocess.PIPE, stderr=subprocess.PIPE, text=True,
                       env=dict(os.environ, PYTHONWARNINGS="ignore"))
    if p.returncode != 0:
        ctx.ob(rule, "inner_weighted_var/induction", False, w, "anchor not recognised: CAS failed: %s" % p.stderr[-300:], what="anchor not recognised")
        return
    out = json.loads(p.stdout)
    for n in ("W", "M", "S"):
        v = names[n]
        ctx.ob(rule, "inner_weighted_var/inductive-step/%s" % n, out["inductive"][v] == "0", w,
               "with W=Σw, mean=Σwx/Σw, S=Σwx²−(Σwx)²/Σw the update of `%s` re-establishes the invariant for one more element" % v
               if out["inductive"][v] == "0" else
               "the update `%s` of `%s` does not preserve the weighted-variance invariant (residual %s)" % (show(st[v]["step"]), v, out["inductive"][v]),
               what="West recurrence broken")
        ctx.ob(rule, "inner_weighted_var/base-case/%s" % n, out["base"][v] == "0", w,
               "first element from the zero state gives the invariant" if out["base"][v] == "0" else
               "from the initial state the first update of `%s` is off by %s" % (v, out["base"][v]), what="West base case broken")
    ctx.ob(rule, "inner_weighted_var/result", out["result"] == "0", w,
           "result = S/(W − ddof) = Σw(x−x̄_w)²/(Σw − ddof) in exact arithmetic" if out["result"] == "0" else
           "the returned value `%s` differs from Σw(x−x̄)²/(Σw−ddof) by %s (e.g. ddof not reaching the denominator)" % (show(res), out["result"]),
           what="weighted variance formula wrong")


def vec_literal_values(tb, bb):
    """vec![..] lowering: a store of an array aggregate into a fresh box in block bb followed by box_assume_init_into_vec_unsafe"""
    t = tb.term(bb)
    if not (t["k"] == "call" and "into_vec" in callee_name(t)):
        return None
    for si, s in enumerate(tb.blocks[bb]["stmts"]):
        if s["k"] == "assign" and s["dst"]["p"] and s["rv"]["k"] == "agg" and s["rv"].get("array"):
            return [tb.operand_expr(f, bb, si) for f in s["rv"]["fields"]]
    return None


def rule_c07(ctx, prog, rule="R19"):
    rec = Recorder(ctx, rule)
    S = lambda n: prog.method("SummaryStatisticsExt", n)
    rule_west(ctx, prog, rule)
    rule_moment_pipeline(ctx, prog, rule)
    # order 0 ⇒ exactly one(), order 1 ⇒ exactly zero()
    from .paths import enumerate_paths
    for name in ("central_moment", "central_moments"):
        root = S(name)
        tb = prog.tracked(root)
        # decided on the extracted control flow: with order = 0 (resp. 1) every way of returning successfully hands back the exact
        # constant – however the case split is spelled (match arms, if / else-if with early returns, …)
        from .rules_result import success_paths_under

        def is_call0(e, nm):
            return isinstance(e, tuple) and e[0] == "call" and e[1] == nm and not e[3]
        got = {}
        for k_ in (0, 1):
            leaf_k = lambda e, k_=k_: k_ if (isinstance(e, tuple) and e[:2] == ("param", 2)) else None
            vals = []
            for d, path in success_paths_under(tb, leaf_k):
                if d is None:
                    vals.append(None)
                    continue
                e = ds(tb.def_expr(0, d))
                if not (isinstance(e, tuple) and e[0] == "agg" and e[2] == "Ok"):
                    continue        # error exits (empty input)
                if name == "central_moment":
                    vals.append(ds(e[3][0]))
                else:
                    lit = None
                    for b2 in reversed(path):
                        lv = vec_literal_values(tb, b2)
                        if lv is not None:
                            lit = lv
                            break
                    vals.append(tuple(ds(x) for x in lit) if lit is not None else None)
            got[k_] = vals
        if name == "central_moment":
            ok = bool(got[0]) and all(is_call0(v, "one") for v in got[0]) and bool(got[1]) and all(is_call0(v, "zero") for v in got[1])
        else:
            ok = bool(got[0]) and all(v is not None and len(v) == 1 and is_call0(v[0], "one") for v in got[0]) and \
                bool(got[1]) and all(v is not None and len(v) == 2 and is_call0(v[0], "one") and is_call0(v[1], "zero") for v in got[1])
        detail = "order 0 ⇒ one(), order 1 ⇒ zero() as constants (every success path under order = 0 / 1)" if ok else \
            "with order = 0 / 1 the routine can return %s" % {k: [fmt(x)[:40] if not isinstance(x, tuple) or (x and isinstance(x[0], str)) else [fmt(y)[:30] for y in x] for x in v] for k, v in got.items()}
        ctx.ob("R13", "%s/order-0-1-constant" % name, ok, root.where(), detail, what="order 0/1 not the exact constants")
        if name == "central_moments":
            # … and the constant arms are taken for orders 0 and 1 *only*: with order = 2, 3, 4 no success path may hand back a bare
            # literal shorter than order + 1 entries (it has to go through the general pipeline that appends the higher moments)
            short = []
            for k_ in (2, 3, 4):
                leaf_k = lambda e, k_=k_: k_ if (isinstance(e, tuple) and e[:2] == ("param", 2)) else None
                for d, path in success_paths_under(tb, leaf_k):
                    if d is None:
                        continue
                    e = ds(tb.def_expr(0, d))
                    if not (isinstance(e, tuple) and e[0] == "agg" and e[2] == "Ok"):
                        continue
                    # (a path through the head of the appending loop counts: how often it iterates is the range obligation's business)
                    grows = any(tb.term(b2)["k"] == "call" and callee_name(tb.term(b2)) in ("push", "extend", "collect", "extend_from_slice", "resize", "next")
                                for b2 in path)
                    lit = None
                    for b2 in reversed(path):
                        lv = vec_literal_values(tb, b2)
                        if lv is not None:
                            lit = lv
                            break
                    if not grows and lit is not None and len(lit) < k_ + 1:
                        short.append((k_, len(lit)))
            ctx.ob("R13", "central_moments/constant-arms-only-for-0-1", not short, root.where(),
                   "with order = 2, 3, 4 every success path goes through the pipeline that appends the higher moments" if not short else
                   "with order = %d a success path returns a bare %d-entry literal: the moments above it are missing" % short[0],
                   what="bulk moments truncated for an order ≥ 2")
    # general arm of central_moments starts the vector with [one(), zero()] too
    root = S("central_moments")
    tb = prog.tracked(root)
    lits = []
    for bb in tb.live_blocks():
        lv = vec_literal_values(tb, bb)
        if lv is not None:
            lits.append([ds(x) for x in lv])
    ok = sum(1 for l in lits if len(l) == 2 and l[0][1] == "one" and l[1][1] == "zero") >= 2
    bulk = _bulk_build(prog, tb)
    if bulk is not None:
        # the general case, whatever its spelling (vec![one, zero] or with_capacity + two pushes): what precedes the mapped entries
        head = []
        for s_ in bulk[1]:
            if s_[0] == "elems":
                head.extend(s_[1])
            elif s_[0] == "push":
                head.append(s_[1])
            elif s_[0] == "map":
                break
        okg = len(head) == 2 and all(isinstance(h_, tuple) and h_[0] == "call" and not h_[3] for h_ in head) and head[0][1] == "one" and head[1][1] == "zero"
        ok = okg and sum(1 for l in lits if len(l) == 2 and l[0][1] == "one" and l[1][1] == "zero") >= 1
        if not okg:
            lits = lits + [head]
    ctx.ob("R13", "central_moments/prefix-constants", ok, root.where(), "every arm with ≥ 2 entries starts [one(), zero()]" if ok else
           "vector literals: %s" % [[fmt(x) for x in l] for l in lits], what="bulk moments do not start with the exact constants")
    # skewness / kurtosis formulas over central_moments(k)
    for name, spec in (("kurtosis", ("div", ("sym", "cm[4]"), ("pow", ("sym", "cm[2]"), 2))),
                       ("skewness", ("div", ("sym", "cm[3]"), ("pow", ("fn", "sqrt", ("sym", "cm[2]")), 3)))):
        root = S(name)
        try:
            def extra(body, e):
                if isinstance(e, tuple) and e[0] == "call" and e[1] == "index" and len(e[3]) == 2:
                    src = unwrap_try(e[3][0])
                    i = ds(e[3][1])
                    if isinstance(src, tuple) and src[0] == "call" and src[1] == "central_moments" and ds(src[3][0])[:2] == ("param", 1) and i[0] == "const":
                        order = ds(src[3][1])
                        if order[0] == "const" and order[2] >= i[2]:
                            return ("sym", "cm[%d]" % i[2])
                return None
            t = routine_value(prog, root, extra=extra)
            rec.equal("%s/formula" % name, root.where(), t, spec, "not the documented ratio of central moments", name)
        except Unrecognised as ex:
            unrec(ctx, rule, "%s/formula" % name, root.where(), ex)
    # per-axis = lane-wise kernel with the caller's weights and ddof; std = sqrt ∘ var
    wv = S("weighted_var")
    wva = S("weighted_var_axis")
    try:
        r = ds(wv.return_expr())
        # weighted_var returns inner_weighted_var(self, weights, ddof, zero)
        finals = [ds(wv.def_expr(0, d)) for d in wv.reaching_defs(0, wv.exits()[0], "term")]
        # the kernel may return the value itself (wrapped in Ok here) or a Result (returned as is)
        finals = [f for f in finals if not (isinstance(f, tuple) and ((f[0] == "agg" and f[2] == "Err") or (f[0] == "call" and f[1] == "from_residual")))]
        finals = [ds(f[3][0]) if (isinstance(f, tuple) and f[0] == "agg" and f[2] == "Ok" and f[3]) else f for f in finals]
        call = [f for f in finals if isinstance(f, tuple) and f[0] == "call" and f[1] == "inner_weighted_var"]
        # every non-error value handed back is the kernel's (no second success path that bypasses it)
        ok1 = len(call) == 1 and len(finals) == 1 and call[0][3][0][:2] == ("param", 1) and call[0][3][1][:2] == ("param", 2) and call[0][3][2][:2] == ("param", 3)
        zero1 = call[0][3][3] if call else None
        ok2 = False
        detail2 = "no map_axis(self, axis, closure)"
        for bb, t in wva.calls():
            if callee_name(t) == "map_axis":
                a = wva.call_arg_exprs(bb)
                cb, ups = closure_of(prog, a[2])
                if cb is None:
                    continue
                from .facts import inline_calls as _inl2
                # the lane body may go through a private per-lane helper: read in place (the kernel itself stays a call)
                cb = _inl2(prog, cb, lambda h: h.key not in prog.exported and len(h.blocks) <= 60 and not h.raw.get("unsafe_fn") and h.name != "inner_weighted_var")
                cr = unwrap_try(cb.return_expr())
                if isinstance(cr, tuple) and cr[0] == "call" and cr[1] == "inner_weighted_var":
                    lane = ds(cr[3][0])[:2] == ("param", 2)
                    pb, wexp = up(prog, cb, cr[3][1])
                    wexp = ds(wexp)
                    while isinstance(wexp, tuple) and wexp[0] == "call" and wexp[1] == "view":
                        wexp = ds(wexp[3][0])
                    w_ok = wexp[:2] == ("param", 3)
                    pb2, dexp = up(prog, cb, cr[3][2])
                    d_ok = ds(dexp)[:2] == ("param", 4)
                    pb3, zexp = up(prog, cb, cr[3][3])
                    z_ok = _strip_sites(ds(zexp)) == _strip_sites(zero1) if zero1 is not None else False
                    ax = ds(a[0])[:2] == ("param", 1) and ds(a[1])[:2] == ("param", 2)
                    ok2 = lane and w_ok and d_ok and z_ok and ax
                    detail2 = "each lane → inner_weighted_var(lane, weights, ddof, zero) with the caller's weights and ddof" if ok2 else \
                        "lane=%s weights=%s ddof=%s zero=%s (self,axis)=%s" % (lane, w_ok, d_ok, z_ok, ax)
        sv = success_values(wva)
        only_map = len(sv) == 1 and isinstance(sv[0][1], tuple) and sv[0][1][0] == "call" and sv[0][1][1] == "map_axis"
        ctx.ob("R13", "weighted_var_axis/single-success-value", only_map, wva.where(),
               "the only success value is map_axis(self, axis, lane kernel)" if only_map else
               "weighted_var_axis has %d success values (%s): some inputs bypass the lane kernel, so the per-axis result is not the "
               "whole-array routine applied to the lane" % (len(sv), "; ".join(fmt(v)[:70] for _, v in sv)),
               what="per-axis variance bypasses the lane kernel for some inputs")
        ctx.ob("R13", "weighted_var/kernel-call", ok1, wv.where(), "= inner_weighted_var(self, weights, ddof, zero)" if ok1 else
               "weighted_var does not hand (self, weights, ddof) to the kernel unchanged", what="whole-array variance kernel arguments")
        ctx.ob("R13", "weighted_var_axis/lane-kernel", ok2, wva.where(), detail2, what="per-axis variance is not the whole-array kernel per lane")
    except Unrecognised as ex:
        unrec(ctx, "R13", "weighted_var_axis/lane-kernel", wva.where(), ex)
    # ddof precondition: the assertion lets every ddof in [0, 1] through (C07 quantifies over those; the common 0 and 1 included)
    from .rules_result import rule_guard_table
    from .facts import inline_calls as _inl
    _hf = lambda cb: cb.key not in prog.exported and len(cb.blocks) <= 60 and not cb.raw.get("unsafe_fn") and cb.name != "inner_weighted_var"
    for rb_, pi in ((wv, 3), (wva, 4)):
        rule_guard_table(ctx, prog.tracked(_inl(prog, rb_, _hf)), "%s/ddof-assert" % rb_.name,
                         involves=lambda e, pi=pi: isinstance(e, tuple) and e[:2] == ("param", pi),
                         leaf_for=lambda s_, pi=pi: (lambda e: s_ if (isinstance(e, tuple) and e[:2] == ("param", pi)) else None),
                         samples=[-1, 0, 0.5, 1, 2], expect_diverge=lambda s_: False if 0 <= s_ <= 1 else None, describe=lambda s_: "ddof = %s" % s_,
                         rule="R13", what="ddof assertion rejects a valid ddof or admits an invalid one")
    for name, base in (("weighted_std", "weighted_var"), ("weighted_std_axis", "weighted_var_axis")):
        root = S(name)
        ok = False
        r = None
        finals = [ds(root.def_expr(0, d)) for d in root.reaching_defs(0, root.exits()[0], "term")]
        for f in finals:
            if isinstance(f, tuple) and f[0] == "agg" and f[2] == "Ok":
                v = ds(f[3][0])
                if name == "weighted_std":
                    ok = isinstance(v, tuple) and v[0] == "call" and v[1] == "sqrt" and \
                        isinstance(unwrap_try(v[3][0]), tuple) and unwrap_try(v[3][0])[1] == base
                else:
                    if isinstance(v, tuple) and v[0] == "call" and v[1] in ("mapv_into", "mapv", "map") and unwrap_try(v[3][0])[1] == base:
                        cb, ups = closure_of(prog, v[3][1])
                        ret, _ = closure_terms(prog, cb, {2: ("sym", "x")})
                        ok = ret == ("fn", "sqrt", ("sym", "x"))
        if not ok and name == "weighted_std":
            # any spelling of "the success value of weighted_var, square-rooted": `?` + Ok(..sqrt()), `.map(|v| v.sqrt())`, `.map(A::sqrt)`
            try:
                ok = routine_value(prog, root) == ("fn", "sqrt", ("sym", base))
            except Unrecognised:
                ok = False
        ctx.ob("R13", "%s/sqrt-of-var" % name, ok, root.where(), "= sqrt ∘ %s" % base if ok else "%s is not the square root of %s" % (name, base),
               what="standard deviation is not sqrt(variance)")
    rec.flush()


def _strip_sites(e):
    if not isinstance(e, tuple):
        return e
    if e[0] == "call":
        return ("call", e[1], e[2], tuple(_strip_sites(a) for a in e[3]))
    return tuple(_strip_sites(x) if isinstance(x, tuple) else x for x in e)


# ======================================================================================= C12 bins from strategies (R17)

def self_field_leaf(e):
    if isinstance(e, tuple) and e[0] == "field" and isinstance(e[1], tuple) and e[1][:2] == ("param", 1):
        return ("sym", "self." + e[2])
    return None


def inline_local_call(prog, caller_tb, e, leaf, depth=0):
    """term of a call to a private crate function by inlining its (loop-free, branch-free) return expression"""
    cb = prog.bodies.get(e[2])
    if cb is None:
        # method call resolved by name on EquiSpaced
        cands = [b for b in prog.bodies.values() if b.name == e[1] and "EquiSpaced" in b.key and not b.is_closure]
        cb = cands[0] if len(cands) == 1 else None
    if cb is None or depth > 3:
        return None
    tb = prog.tracked(cb)
    if any(tb.term(bb)["k"] == "switch" for bb in tb.live_blocks()):
        return None
    args = [caller_term for caller_term in e[3]]
    amap = {}

    def leaf2(x):
        if isinstance(x, tuple) and x[0] == "param":
            i = x[1]
            if i - 1 < len(args):
                return amap.setdefault(i, ("arg", i))
        return None
    # build the callee's term with parameter placeholders, then substitute caller terms
    K2 = Kernel(prog, tb, lambda x: (("sym", "self." + x[2]) if (isinstance(x, tuple) and x[0] == "field" and isinstance(x[1], tuple) and x[1][:2] == ("param", 1) and ds(e[3][0])[:2] == ("param", 1)) else
                                      (("sym", "@arg%d" % x[1]) if (isinstance(x, tuple) and x[0] == "param") else None)))
    t = K2.term(tb.return_expr())
    return t, cb


def edge_terms(prog):
    """(compared-with-max term in n_bins as a function of its counter, pushed term in build as a function of its index, details)"""
    nb = prog.find("histogram::strategies::EquiSpaced::<T>::n_bins")
    bd = prog.find("histogram::strategies::EquiSpaced::<T>::build")
    tn = prog.tracked(nb)
    tbd = prog.tracked(bd)
    out = {}
    # ---- n_bins: loop, exit condition `X <= self.max`, returned counter
    lp = T.Loop(tn)
    ec = lp.exit_condition()
    if ec is None:
        raise Unrecognised("n_bins: no loop exit condition")
    bb, de, stay = ec
    de = ds(de)
    if not (isinstance(de, tuple) and de[0] == "call" and de[1] in ("le", "lt", "ge", "gt") and len(de[3]) == 2):
        raise Unrecognised("n_bins: loop condition `%s`" % fmt(de))
    lhs, rhs = de[3]
    rel = de[1]
    if self_field_leaf(rhs) != ("sym", "self.max") and self_field_leaf(lhs) == ("sym", "self.max"):
        lhs, rhs = rhs, lhs
        rel = {"le": "ge", "lt": "gt", "ge": "le", "gt": "lt"}[rel]
    # normalise to the relation `edge REL max` under which the loop keeps counting
    sw = tn.term(bb)
    f_t = [tgt for v, tgt in sw["arms"] if v == 0]
    stays_on_true = sw["otherwise"] in stay and not (f_t and f_t[0] in stay)
    stays_on_false = bool(f_t) and f_t[0] in stay and sw["otherwise"] not in stay
    if stays_on_false:
        rel = {"le": "gt", "lt": "ge", "ge": "lt", "gt": "le"}[rel]
    elif not stays_on_true:
        rel = "?"
    out["cmp_op"] = rel
    out["cmp_against_max"] = self_field_leaf(rhs) == ("sym", "self.max")
    # returned counter
    r = ds(tn.return_expr())
    counters = [l for l in lp.carried if ds(lp.head_phi(l)) == r]
    if len(counters) != 1:
        raise Unrecognised("n_bins: returned value is not a loop-carried counter")
    ctr = counters[0]
    cphi = ds(lp.head_phi(ctr))
    Kc = Kernel(prog, tn, lambda e: ("sym", "CTR") if e == cphi else None)
    out["counter_step"] = Kc.term(lp.step_expr(ctr))
    out["counter_init"] = Kc.term(lp.init_expr(ctr))
    # compared value as a function of the counter only
    other = {ds(lp.head_phi(l)): l for l in lp.carried if l != ctr}

    class Acc(Exception):
        pass

    def leaf_n(e):
        if e == cphi:
            return ("sym", "i")
        if e in other:
            raise Acc(other[e])
        sf = self_field_leaf(e)
        if sf:
            return sf
        if isinstance(e, tuple) and e[0] == "call" and (e[2].startswith("histogram::strategies::EquiSpaced") and e[1] not in ("n_bins",)):
            res = inline_local_call(prog, tn, e, None)
            if res is not None:
                t, cb = res
                m = {}
                for k, a in enumerate(e[3]):
                    if k == 0:
                        continue
                    m["@arg%d" % (k + 1)] = Kn.term(a)
                out.setdefault("helpers", set()).add(cb.key)
                return subst_t(t, m)
        return None
    Kn = Kernel(prog, tn, leaf_n)
    try:
        out["compared"] = Kn.term(lhs)
        out["accumulated"] = None
    except Acc as a:
        l = a.args[0]
        Ka = Kernel(prog, tn, lambda e: ("sym", "E") if e == ds(lp.head_phi(l)) else self_field_leaf(e))
        out["compared"] = None
        out["accumulated"] = dict(var=tn.local_name(l), init=show(Ka.term(lp.init_expr(l))), step=show(Ka.term(lp.step_expr(l))))
    # ---- build: edges for i in 0..=n_bins, either `for i in .. { edges.push(e(i)) }` or `(..).map(|i| e(i)).collect()`
    def edge_leaf_factory(K_get, ctx_body, idx_expr):
        def leaf_b(e):
            if idx_expr is not None and e == idx_expr:
                return ("sym", "i")
            sf = self_field_leaf(e)
            if sf:
                return sf
            if isinstance(e, tuple) and e[0] == "upvar":
                pb, pe = up(prog, ctx_body, e)
                pe = ds(pe)
                if pe[:2] == ("param", 1):
                    return ("sym", "self")
            if isinstance(e, tuple) and e[0] == "field" and isinstance(e[1], tuple) and e[1][0] == "upvar":
                pb, pe = up(prog, ctx_body, e[1])
                if ds(pe)[:2] == ("param", 1):
                    return ("sym", "self." + e[2])
            if isinstance(e, tuple) and e[0] == "call" and (e[2].startswith("histogram::strategies::EquiSpaced") and e[1] not in ("n_bins",)):
                recv = ds(e[3][0]) if e[3] else None
                if isinstance(recv, tuple) and recv[0] == "upvar":
                    pb, pe = up(prog, ctx_body, recv)
                    recv = ds(pe)
                if isinstance(recv, tuple) and recv[:2] == ("param", 1):
                    e2 = ("call", e[1], e[2], (("param", 1, "self"),) + tuple(e[3][1:]), e[4])
                    res = inline_local_call(prog, ctx_body, e2, None)
                    if res is not None:
                        t, cb = res
                        m = {}
                        for k, a in enumerate(e[3]):
                            if k == 0:
                                continue
                            m["@arg%d" % (k + 1)] = K_get().term(a)
                        out.setdefault("helpers", set()).add(cb.key)
                        return subst_t(t, m)
            return None
        return leaf_b
    rng = None
    pushed_t = None
    holder = {}
    try:
        lpb = T.Loop(tbd)
        it = lpb.iterator()
    except Unrecognised:
        lpb, it = None, None
    if it is not None:
        il, item, iinit = it
        rng = ds(iinit)
        while isinstance(rng, tuple) and rng[0] == "call" and rng[1] == "into_iter":
            rng = ds(rng[3][0])
        pushes = [(pb, t) for pb, t in tbd.calls() if callee_name(t) == "push" and pb in lpb.blocks]
        if len(pushes) != 1:
            raise Unrecognised("build: %d pushes in the loop" % len(pushes))
        pb, pt = pushes[0]
        pushed = tbd.call_arg_exprs(pb)[1]
        Kb = Kernel(prog, tbd, edge_leaf_factory(lambda: holder["K"], tbd, ds(item)))
        holder["K"] = Kb
        pushed_t = Kb.term(pushed)
    else:
        for bb, t in tbd.calls():
            if callee_name(t) == "map" and (t["callee"].get("trait") or "").endswith("Iterator"):
                a = tbd.call_arg_exprs(bb)
                cb, ups = closure_of(prog, a[1])
                if cb is None:
                    continue
                rng = ds(a[0])
                while isinstance(rng, tuple) and rng[0] == "call" and rng[1] == "into_iter":
                    rng = ds(rng[3][0])
                tcb = prog.tracked(cb)
                Kb = Kernel(prog, tcb, edge_leaf_factory(lambda: holder["K"], tcb, ("param", 2, tcb.local_name(2))))
                holder["K"] = Kb
                pushed_t = Kb.term(tcb.return_expr())
                # the mapped values must be collected in order into the edges vector
                coll = any(callee_name(t2) == "collect" and ds(tbd.call_arg_exprs(b2)[0])[:2] == ("call", "map") for b2, t2 in tbd.calls())
                if not coll:
                    raise Unrecognised("build: mapped edges are not collected")
    if pushed_t is None:
        raise Unrecognised("build: neither a push loop nor map(..).collect() over the bin indices")
    out["range"] = rng
    out["pushed"] = pushed_t
    # result: Bins::new(Edges::from(edges vector))
    out["build_body"] = tbd
    out["nbins_body"] = tn
    return out


def rule_r17(ctx, prog, rule="R17"):
    rec = Recorder(ctx, "R19")
    try:
        et = edge_terms(prog)
    except Unrecognised as ex:
        unrec(ctx, rule, "EquiSpaced/edge-terms", "", ex)
        return
    wn = et["nbins_body"].where()
    wb = et["build_body"].where()
    if et["compared"] is None:
        a = et["accumulated"]
        ctx.ob(rule, "EquiSpaced/n_bins-vs-build/edge-formula/found:accumulated(%s' = %s)" % (a["var"], a["step"]), False, wn,
               "n_bins() stops counting on an *accumulated* edge (`%s` starts at %s, then %s' = %s) while build() places edge i at `%s`: "
               "for floating-point element types the two rounding sequences differ, so the last built edge can equal the maximum "
               "(the maximum falls outside the right-open last bin) or the counting loop need not terminate"
               % (a["var"], a["init"], a["var"], a["step"], show(et["pushed"])),
               what="n_bins and build use different edge formulas")
    else:
        same = canon_op(et["compared"]) == canon_op(et["pushed"])
        ctx.ob(rule, "EquiSpaced/n_bins-vs-build/edge-formula", same, wn,
               "the edge compared with max in n_bins() and the edge pushed by build() are the same operation DAG of the counter: `%s`"
               % show(et["pushed"]) if same else
               "n_bins() compares `%s` with max, build() pushes `%s`: not the same operations" % (show(et["compared"]), show(et["pushed"])),
               what="n_bins and build use different edge formulas")
    ctx.ob(rule, "EquiSpaced/n_bins/compares-with-max", et["cmp_against_max"] and et["cmp_op"] == "le", wn,
           "counting continues while edge <= self.max (so the last edge is strictly above the maximum)" if et["cmp_against_max"] else
           "loop condition does not compare the edge with self.max", what="bin counting not bounded by the maximum")
    # the count is the least k >= 1 whose edge lies above the maximum: the counter starts at 0 or 1 (edge(0) = min <= max, so both
    # give the same count); a larger start can overshoot by a whole bin
    ctx.ob(rule, "EquiSpaced/n_bins/counter", et["counter_step"] == ("add", ("sym", "CTR"), ("num", 1)) and et["counter_init"] in (("num", 0), ("num", 1)),
           wn, "returned counter starts at %s and is incremented by 1 per iteration" % show(et["counter_init"]),
           what="bin counter is not a unit-step counter")
    # build: indices 0..=n_bins(self)
    rng = et["range"]
    ok = isinstance(rng, tuple) and rng[0] == "call" and rng[1] == "new" and "RangeInclusive" in rng[2] and ds(rng[3][0]) == ("const", "usize", 0)
    if ok:
        hi = ds(rng[3][1])
        ok = isinstance(hi, tuple) and hi[0] == "call" and hi[1] == "n_bins" and ds(hi[3][0])[:2] == ("param", 1)
    ctx.ob(rule, "EquiSpaced/build/index-range", ok, wb, "edges are built for i in 0..=self.n_bins()" if ok else
           "build iterates over `%s`" % fmt(rng), what="number of built bins differs from n_bins()")
    # edge(0) = min, edges equally spaced by bin_width (algebraic)
    p = et["pushed"]
    rec.equal("EquiSpaced/build/first-edge-is-min", wb, subst_t(p, {"i": ("num", 0)}), ("sym", "self.min"),
              "first edge is not the data minimum", "edge(0)")
    rec.equal("EquiSpaced/build/equal-width", wb, ("sub", subst_t(p, {"i": ("add", ("sym", "i"), ("num", 1))}), p), ("sym", "self.bin_width"),
              "consecutive edges are not bin_width apart", "edge(i+1) − edge(i)")
    rec.flush()


STRATEGIES = ["Sqrt", "Rice", "Sturges", "FreedmanDiaconis"]


def rule_c12_structure(ctx, prog, rule="R13"):
    from .rules_hist import aggregates_of, is_derive
    # every EquiSpaced{..} is built in EquiSpaced::new under the validity guard
    ES = "histogram::strategies::EquiSpaced"
    aggs = [(b, bb, si) for (b, bb, si) in aggregates_of(prog, ES) if not is_derive(b)]
    newb = prog.find("histogram::strategies::EquiSpaced::<T>::new")
    for (b, bb, si) in aggs:
        ok = b.key == newb.key
        ctx.ob("R11", "EquiSpaced/constructed-in/%s" % short(b.key), ok, b.where(bb, si),
               "constructed only by EquiSpaced::new" if ok else "EquiSpaced built outside its validating constructor", what="builder without validity guard")
        if ok:
            # every path to the construction has established  zero < bin_width  and  min < max
            # (private boolean predicates spelled out in place, their constant results threaded to the branch they select)
            from .facts import inline_calls as _inl3, thread_constant_flags as _thr3
            _pred3 = lambda cb: (not cb.is_closure) and cb.key not in prog.exported and (cb.raw.get("output") == "bool") and len(cb.blocks) <= 20
            b2 = _thr3(prog, _inl3(prog, b, _pred3))
            if b2 is not b:
                sites2 = [(x, y) for (x, y, s_) in b2.assigns() if s_["rv"]["k"] == "agg" and s_["rv"].get("adt") == ES]
                if len(sites2) == 1:
                    b, (bb, si) = b2, sites2[0]
            rels = set()
            for sb in b.live_blocks():
                st = b.term(sb)
                if st["k"] != "switch":
                    continue
                de = ds(b.switch_discr_expr(sb))
                neg = False
                while isinstance(de, tuple) and de[0] == "unop" and de[1] == "Not":
                    neg = not neg
                    de = ds(de[2])
                if not (isinstance(de, tuple) and de[0] == "call" and de[1] in ("le", "ge", "lt", "gt") and len(de[3]) == 2):
                    continue
                f = [tgt for v, tgt in st["arms"] if v == 0]
                x, y = de[3]
                for edge_t, truth in ((st["otherwise"], True), (f[0] if f else None, False)):
                    if edge_t is None or not branch_dominates(b, sb, edge_t, bb):
                        continue
                    tv = truth != neg
                    op = de[1]
                    fact = {("lt", True): ("lt", x, y), ("lt", False): ("le", y, x), ("le", True): ("le", x, y), ("le", False): ("lt", y, x),
                            ("gt", True): ("lt", y, x), ("gt", False): ("le", x, y), ("ge", True): ("le", y, x), ("ge", False): ("lt", x, y)}[(op, tv)]
                    rels.add(fact)

            def is_zero(e):
                return isinstance(e, tuple) and e[0] == "call" and e[1] == "zero"
            w_ok = any(r[0] == "lt" and is_zero(r[1]) and r[2][:2] == ("param", 1) for r in rels)
            m_ok = any(r[0] == "lt" and r[1][:2] == ("param", 2) and r[2][:2] == ("param", 3) for r in rels)
            ctx.ob("R11", "EquiSpaced::new/validity-guard", w_ok and m_ok, b.where(),
                   "construction dominated by zero < bin_width and min < max: every builder has width > 0 ∧ min < max" if w_ok and m_ok else
                   "construction is not dominated by both validity conditions (width>0: %s, min<max: %s)" % (w_ok, m_ok),
                   what="invalid builder constructible")
            s = b.blocks[bb]["stmts"][si]
            fields = dict(zip(s["rv"]["field_names"], [ds(b.operand_expr(f, bb, si)) for f in s["rv"]["fields"]]))
            roles = fields.get("bin_width", ())[:2] == ("param", 1) and fields.get("min", ())[:2] == ("param", 2) and fields.get("max", ())[:2] == ("param", 3)
            ctx.ob("R11", "EquiSpaced::new/field-roles", roles, b.where(), "fields (bin_width, min, max) take the parameters of the same name" if roles else
                   "fields are filled from the wrong parameters: %s" % {k: fmt(v) for k, v in fields.items()}, what="builder fields permuted")
    a = prog.adts.get(ES)
    priv = bool(a) and not a["public"] and all(not f["public"] for v in a["variants"] for f in v["fields"])
    ctx.ob("R11", "EquiSpaced/private", priv, "", "struct and fields are module-private" if priv else "EquiSpaced or its fields are public", what="builder exposed")
    # from_array of the four direct strategies: min ← a.min(), max ← a.max(), passed in that order
    for sname in STRATEGIES:
        fa = prog.find("histogram::strategies::%s<T> as histogram::strategies::BinsBuildingStrategy>::from_array" % sname)
        from .rules_guard import subst as gsubst

        def find_new(body, mapping, depth=0):
            """arguments of the EquiSpaced::new call reachable through private helpers, expressed over from_array's parameters"""
            res = []
            for bb, t in body.calls():
                if callee_name(t) == "new" and "EquiSpaced" in (t["callee"].get("path") or ""):
                    res.append([gsubst(ds(x), mapping) if mapping else ds(x) for x in body.call_arg_exprs(bb)])
                    continue
                cb = prog.local_callee_body(t)
                if cb is not None and cb.key not in prog.exported and not cb.is_closure and depth < 2 and "strategies" in cb.key \
                        and callee_name(t) not in ("compute_bin_width", "build", "n_bins", "bin_width"):
                    args = [gsubst(ds(x), mapping) if mapping else ds(x) for x in body.call_arg_exprs(bb)]
                    res.extend(find_new(cb, {i + 1: a for i, a in enumerate(args)}, depth + 1))
            return res
        news = find_new(fa, None)
        ok = len(news) == 1
        detail = "%d EquiSpaced::new calls" % len(news)
        if ok:
            a_ = news[0]

            def from_extremum(e, which, depth_=0):
                for _ in range(4):
                    e = ds(e)
                    if isinstance(e, tuple) and e[0] == "call" and e[1] == "clone" and e[3]:
                        e = ds(e[3][0])
                        continue
                    break
                u = unwrap_try(e)
                if isinstance(u, tuple) and u[0] == "field" and depth_ < 2:
                    # component of the tuple or private struct a private helper returns: `let (min, max) = min_and_max(a)?`,
                    # `Extent::of(a)?.min`
                    base = unwrap_try(u[1])
                    for _ in range(3):
                        if isinstance(base, tuple) and base[0] in ("ref", "deref"):
                            base = unwrap_try(base[1])
                    if isinstance(base, tuple) and base[0] == "call":
                        cb = prog.bodies.get(base[2])
                        if cb is not None and cb.key not in prog.exported and not cb.is_closure:
                            svs = [ds(v) for _, v in success_values(prog.tracked(cb))]
                            if len(svs) == 1 and isinstance(svs[0], tuple) and svs[0][0] == "agg" and svs[0][1] != "closure":
                                names = [str(x) for x in (svs[0][4] if len(svs[0]) > 4 and svs[0][4] else range(len(svs[0][3])))]
                                if str(u[2]) in names:
                                    comp = gsubst(ds(svs[0][3][names.index(str(u[2]))]), {i + 1: ds(x) for i, x in enumerate(base[3])})
                                    return from_extremum(comp, which, depth_ + 1)
                    return False
                return isinstance(u, tuple) and u[0] == "call" and u[1] == which and ds(u[3][0])[:2] == ("param", 1)
            ok = from_extremum(a_[1], "min") and from_extremum(a_[2], "max")
            detail = "EquiSpaced::new(width, a.min()?, a.max()?)" if ok else "min/max arguments are `%s`, `%s`" % (fmt(a_[1])[:60], fmt(a_[2])[:60])
        ctx.ob("R13", "%s::from_array/min-max-provenance" % sname, ok, fa.where(), detail, what="bins do not span [data min, data max]")
        # build / n_bins / bin_width delegate to the builder
        for m in ("build", "n_bins"):
            mb = prog.find("histogram::strategies::%s<T> as histogram::strategies::BinsBuildingStrategy>::%s" % (sname, m))
            r = ds(mb.return_expr())
            okd = isinstance(r, tuple) and r[0] == "call" and r[1] == m and "EquiSpaced" in r[2] and r[3][0] == ("field", ("param", 1, "self"), "builder")
            ctx.ob("R13", "%s::%s/delegates" % (sname, m), okd, mb.where(), "= self.builder.%s()" % m if okd else "`%s`" % fmt(r)[:100],
                   what="strategy accessor does not use the shared builder")
    # Auto: the three accessors dispatch on the same enum to the same variant's method
    for m in ("build", "n_bins"):
        mb = prog.find("histogram::strategies::Auto<T> as histogram::strategies::BinsBuildingStrategy>::%s" % m)
        from .facts import inline_calls
        # the dispatch may live in a private method of the enum itself
        mb = inline_calls(prog, mb, lambda cb: cb.key not in prog.exported and not cb.is_closure and not cb.raw.get("unsafe_fn") and
                          ("SturgesOrFD" in cb.key or ("strategies::Auto" in cb.key and cb.name not in ("build", "n_bins", "from_array"))))
        # every return path returns, unchanged, the result of the variant's own method on that variant's payload
        from .paths import enumerate_paths, resolve_phi, NotLoopFree
        vs = set()
        ok = True
        try:
            paths = enumerate_paths(mb)
        except NotLoopFree:
            paths, ok = [], False
        for p_ in paths:
            if p_[1] is None:
                ok = False
                continue
            r = ds(resolve_phi(mb, mb.def_expr(0, p_[1]), p_.blocks))
            good = False
            if isinstance(r, tuple) and r[0] == "call" and r[1] == m and r[3]:
                a0 = ds(r[3][0])
                # (self.builder as Variant).0
                if isinstance(a0, tuple) and a0[0] == "field" and isinstance(a0[1], tuple) and a0[1][0] == "downcast":
                    base = ds(a0[1][1])
                    variant = a0[1][2]
                    site = mb.site_term(r[4])
                    callee_self = site["callee"].get("self_ty") or site["callee"].get("path_args") or ""
                    good = variant in callee_self and base == ("field", ("param", 1, "self"), "builder")
                    if good:
                        vs.add(variant)
                # ((self.builder as Variant).0).builder handed to EquiSpaced's own method: what the variant's method does itself
                # (Variant::build/n_bins = self.builder.build()/n_bins() is the `<Variant>::<m>/delegates` obligation)
                if not good and isinstance(a0, tuple) and a0[0] == "field" and str(a0[2]) == "builder":
                    a1 = ds(a0[1])
                    for _ in range(3):
                        if isinstance(a1, tuple) and a1[0] in ("ref", "deref"):
                            a1 = ds(a1[1])
                    if isinstance(a1, tuple) and a1[0] == "field" and isinstance(ds(a1[1]), tuple) and ds(a1[1])[0] == "downcast":
                        base = ds(ds(a1[1])[1])
                        variant = ds(a1[1])[2]
                        site = mb.site_term(r[4])
                        good = "EquiSpaced" in ((site["callee"].get("path") or "") + (site["callee"].get("self_ty") or "")) and \
                            base == ("field", ("param", 1, "self"), "builder")
                        if good:
                            vs.add(variant)
            ok = ok and good
        ok = ok and vs == {"Sturges", "FreedmanDiaconis"}
        ctx.ob("R13", "Auto::%s/dispatch" % m, ok, mb.where(), "each variant dispatches to its own %s()" % m if ok else
               "Auto::%s does not dispatch each variant to that variant's method" % m, what="Auto accessor dispatches to the wrong strategy")


# ======================================================================================= C18 bulk = single (R13)

def canon_expr(prog, body, e, depth=0):
    """body-independent canonical form of an expression: call sites dropped, closures replaced by the canonical form of
    what they return (with captures resolved in the enclosing body)"""
    e = ds(e)
    if not isinstance(e, tuple) or depth > 30:
        return e
    k = e[0]
    if k == "param":
        return ("param", e[1])
    if k == "upvar":
        pb, pe = up(prog, body, e)
        return canon_expr(prog, pb, pe, depth + 1)
    if k == "call":
        return ("call", e[1], e[2], tuple(canon_expr(prog, body, a, depth + 1) for a in e[3]))
    if k == "agg" and e[1] == "closure":
        cb = prog.bodies.get(e[2])
        if cb is None:
            return ("closure?",)
        return ("lambda", canon_expr(prog, cb, cb.return_expr(), depth + 1))
    if k == "agg":
        return ("agg", e[1], e[2], tuple(canon_expr(prog, body, a, depth + 1) for a in e[3]))
    if k == "binop":
        return ("binop", e[1], canon_expr(prog, body, e[2], depth + 1), canon_expr(prog, body, e[3], depth + 1))
    if k in ("unop", "cast"):
        return (k, e[1], canon_expr(prog, body, e[2], depth + 1)) + e[3:]
    if k == "field":
        inner = canon_expr(prog, body, e[1], depth + 1)
        # component of a tuple built in place (e.g. after inlining a helper that returns a tuple)
        if isinstance(inner, tuple) and inner[0] == "agg" and inner[1] in ("tuple", None) and str(e[2]).isdigit() and int(e[2]) < len(inner[3]):
            return inner[3][int(e[2])]
        return (k, inner) + e[2:]
    if k in ("downcast", "discr"):
        return (k, canon_expr(prog, body, e[1], depth + 1)) + e[2:]
    if k == "index":
        return ("index", canon_expr(prog, body, e[1], depth + 1), canon_expr(prog, body, e[2], depth + 1))
    if k == "phi":
        return ("phi", e[2])
    if k == "const":
        return e
    return e


def rule_moment_results(ctx, prog, cm=None, cms=None, bb1=None, rule="R13"):
    """what central_moment / central_moments hand back is what the pipeline computed, with nothing applied afterwards"""
    if cm is None:
        from .facts import inline_calls
        S = lambda n: prog.method("SummaryStatisticsExt", n)
        keep = ("moments", "central_moment_coefficients", "horner_method")
        filt = lambda cb: cb.key not in prog.exported and len(cb.blocks) <= 60 and cb.name not in keep and not cb.raw.get("unsafe_fn")
        cm, cms = inline_calls(prog, S("central_moment"), filt), inline_calls(prog, S("central_moments"), filt)
        sites = [bb for bb, t in cm.calls() if callee_name(t) == "horner_method"]
        if len(sites) != 1:
            ctx.ob(rule, "central_moment/returns-horner", False, cm.where(), "anchor not recognised: %d horner_method sites" % len(sites),
                   what="anchor not recognised")
            return
        bb1 = sites[0]
    # what the single routine hands back in the general case is the polynomial's value itself (nothing applied afterwards)
    tb1 = prog.tracked(cm)
    want = ds(tb1.call_expr(bb1))
    allv = [ds(v) for _, v in success_values(tb1)]
    consts = [v for v in allv if isinstance(v, tuple) and v[0] == "call" and v[1] in ("one", "zero") and not v[3]]
    others = [v for v in allv if v not in consts]
    # exactly the two constant arms (order 0 → one(), order 1 → zero(): tied to their arms by order-0-1-constant) and the polynomial
    okh = bool(others) and all(v == want for v in others) and sorted(v[1] for v in consts) == ["one", "zero"]
    ctx.ob(rule, "central_moment/returns-horner", okh, cm.where(bb1, "term"),
           "for order ≥ 2 the success value is horner_method(coefficients, correction) unchanged" if okh else
           ("for order ≥ 2 the success value is `%s`, not the value of the polynomial" % (fmt([v for v in others if v != want][0])[:100])
            if [v for v in others if v != want] else "success values besides the polynomial are %s, expected exactly one() for order 0 and zero() for order 1"
            % [fmt(v) for v in consts]),
           what="central moment post-processed after the polynomial evaluation")
    # the bulk routine's vector is built by its start, plain pushes and the one mapped segment over k only (no reverse / sort /
    # truncate / in-place edit afterwards), and it is that vector which is returned in the general case
    from .rules_result import returned_locals
    tb2 = prog.tracked(cms)
    bulk = _bulk_build(prog, tb2)
    bad = None
    if bulk is None:
        bad = "the general case does not fill one vector by a single loop / extend(map) over k"
    else:
        vec, segs, seg = bulk
        other = [s_ for s_ in segs if s_[0] == "other"]
        if other:
            bad = "the returned vector is also mutated by `%s` at %s" % (other[0][1], tb2.where(other[0][2], "term"))
        elif segs[-1][0] != "map":
            bad = "elements are appended after the mapped entries"
        else:
            rl = {L for _d, L in returned_locals(tb2)}
            if vec not in rl:
                bad = "the vector filled over k is not what the general case returns"
        n_succ = len(list(success_values(tb2)))
        if bad is None and n_succ != 3:
            bad = "%d success values (expected the order-0 vector, the order-1 vector and the filled vector)" % n_succ
    ctx.ob(rule, "central_moments/vector-only-pushed", bad is None, cms.where(),
           "the returned vector is its literal start plus the entries mapped over k, untouched afterwards" if bad is None else bad,
           what="bulk moments edited after they were computed")


def _bulk_build(prog, tb):
    """(vec local, segments, the one map segment) of the named vector a moments routine fills, via vecbuild"""
    from . import vecbuild as VB
    best = None
    for v in VB.vec_locals(tb):
        segs = VB.build_of(prog, tb, v)
        if not segs:
            continue
        maps = [s_ for s_ in segs if s_[0] == "map"]
        if len(maps) == 1:
            best = (v, segs, maps[0][1])
    return best


def rule_c18_moments(ctx, prog, rule="R13"):
    S = lambda n: prog.method("SummaryStatisticsExt", n)
    cm, cms = S("central_moment"), S("central_moments")
    # private helpers shared by the two routines (other than the three pipeline stages) are analysed in place
    from .facts import inline_calls
    keep = ("moments", "central_moment_coefficients", "horner_method")
    filt = lambda cb: cb.key not in prog.exported and len(cb.blocks) <= 60 and cb.name not in keep and not cb.raw.get("unsafe_fn")
    cm, cms = inline_calls(prog, cm, filt), inline_calls(prog, cms, filt)

    def horner_sites(b):
        out = []
        for bb, t in b.calls():
            if callee_name(t) == "horner_method":
                a = b.call_arg_exprs(bb)
                out.append((bb, a))
        return out
    from . import vecbuild as VB
    h1 = horner_sites(cm)
    bulk = _bulk_build(prog, prog.tracked(cms))
    seg = bulk[2] if bulk else None
    hv = ds(seg["value"]) if seg else None
    ok = len(h1) == 1 and seg is not None and isinstance(hv, tuple) and hv[0] == "call" and hv[1] == "horner_method" and len(hv[3]) == 2
    if not ok:
        ctx.ob(rule, "central_moment(s)/pipeline", False, cm.where(),
               "anchor not recognised: %d horner_method site(s) in central_moment; bulk entries k >= 2 are %s" % (
                   len(h1), ("`%s`" % fmt(hv)[:80]) if hv is not None else "not produced by one loop / extend(map) over k"),
               what="anchor not recognised")
        return
    (bb1, a1) = h1[0]
    a2 = hv[3]
    cms_v = seg["vbody"]            # the routine itself (loop form) or the mapping closure (extend form)
    rule_moment_results(ctx, prog, cm, cms, bb1, rule)
    c1 = canon_expr(prog, cm, a1[0])
    c2 = canon_expr(prog, cms_v, a2[0])
    corr1 = canon_expr(prog, cm, a1[1])
    corr2 = canon_expr(prog, cms_v, a2[1])
    # coefficients = central_moment_coefficients(M or M[..=k])
    def coeff_input(c):
        # the coefficient vector may be lent (`&coefficients`, deref-coerced to a slice) instead of moved
        for _ in range(4):
            if isinstance(c, tuple) and c[0] == "call" and c[1] in ("deref", "as_slice", "as_ref", "borrow") and c[3]:
                c = c[3][0]
            elif isinstance(c, tuple) and c[0] in ("ref", "deref"):
                c = c[1]
        if isinstance(c, tuple) and c[0] == "call" and c[1] == "central_moment_coefficients":
            x = c[3][0]
            while isinstance(x, tuple) and x[0] == "call" and x[1] == "deref":
                x = x[3][0]
            return x
        return None
    m1, m2 = coeff_input(c1), coeff_input(c2)
    prefix = None
    if isinstance(m2, tuple) and m2[0] == "call" and m2[1] == "index" and isinstance(m2[3][1], tuple) and m2[3][1][0] == "agg" \
            and m2[3][1][1] == "std::ops::RangeToInclusive":
        prefix = m2[3][1][3][0]
        m2 = m2[3][0]
    same_m = m1 is not None and m1 == m2
    ctx.ob(rule, "central_moment(s)/same-shifted-moments", same_m, cm.where(),
           "both compute moments(self.mapv(|x| x − mean), order) with mean = self.mean().unwrap() (canonical forms equal)" if same_m else
           "the raw-moment vectors differ: single `%s` vs bulk `%s`" % (fmt(m1)[:120] if m1 else None, fmt(m2)[:120] if m2 else None),
           what="single and bulk central moments use different shifted moments")
    ctx.ob(rule, "central_moment(s)/same-correction", corr1 == corr2 and corr1[0] == "call" and corr1[1] == "neg", cm.where(),
           "both evaluate the polynomial at −shifted_moments[1]" if corr1 == corr2 else "correction terms differ", what="different correction term")
    # bulk uses the prefix ..=k of the same vector, k the loop variable of 2..=order
    pk = False
    if prefix is not None:
        pk = VB.is_item(seg, prefix)          # the loop variable / the mapped range item, through integer casts
    ctx.ob(rule, "central_moments/prefix-per-k", pk, cms.where(), "coefficients for entry k are built from shifted_moments[..=k]" if pk else
           "bulk coefficients are not built from the prefix ..=k of the shifted moments", what="bulk moment k uses the wrong moments")
    rg = VB.range_of(seg["source"])
    okr = rg is not None and rg[2] is True and rg[0] == ("const", "u16", 2) and isinstance(rg[1], tuple) and rg[1][:2] == ("param", 2)
    okp = True        # the entries are the polynomial values (checked above: the segment's value is horner_method(..))
    ctx.ob(rule, "central_moments/k-range", okr and okp, cms.where(), "entries 2..=order are pushed in increasing k after [one, zero]" if okr and okp else
           "bulk loop is not `for k in 2..=order { push(horner(..)) }`", what="bulk moments not in order k")
    rule_moments_vector(ctx, prog, rule)


def _raw_moment_shape(prog, seg):
    """the value of the mapped segment of `moments` is  sum(map(a, |x| x.powi(k))) / from_usize(len(a))  with a the routine's
    first parameter, k the segment's item – read in the routine itself (loop form) or in the mapping closure (extend form, where
    a and n are captures).  → dict(div, n_ok, src_ok, powi_ok, k_ok, refs_order)"""
    from . import vecbuild as VB
    vb = seg["vbody"]

    def res2(e):
        """resolve captures of the segment's closure in the routine → (body the expression lives in, expression)"""
        e = ds(e)
        cur = vb
        for _ in range(4):
            if isinstance(e, tuple) and e[0] == "upvar" and cur.is_closure:
                cur, pe_ = up(prog, cur, e)
                e = ds(pe_)
            else:
                break
        return cur, e

    def res(e):
        return res2(e)[1]

    def is_order(e):
        b_, x_ = res2(e)
        return (not b_.is_closure) and isinstance(x_, tuple) and x_[:2] == ("param", 2)
    out = dict(div=False, n_ok=False, src_ok=False, powi_ok=False, k_ok=False, refs_order=False)
    v = ds(seg["value"])
    if not (isinstance(v, tuple) and v[0] == "call" and v[1] == "div" and len(v[3]) == 2):
        return out
    out["div"] = True
    n_ = unwrap_try(res(v[3][1]))
    out["n_ok"] = isinstance(n_, tuple) and n_[0] == "call" and n_[1] == "from_usize" and ds(n_[3][0])[0] == "call" and \
        ds(n_[3][0])[1] == "len" and res(ds(n_[3][0])[3][0])[:2] == ("param", 1)
    sm = ds(v[3][0])
    if isinstance(sm, tuple) and sm[0] == "call" and sm[1] == "sum" and ds(sm[3][0])[0] == "call" and ds(sm[3][0])[1] in ("map", "mapv"):
        mp = ds(sm[3][0])
        out["src_ok"] = res(mp[3][0])[:2] == ("param", 1)
        cbk, upsk = closure_of(prog, mp[3][1])
        if cbk is not None:
            cr = ds(cbk.return_expr())
            if isinstance(cr, tuple) and cr[0] == "call" and cr[1] == "powi" and ds(cr[3][0])[:2] == ("param", 2):
                out["powi_ok"] = True
                ex_ = ds(cr[3][1])
                if isinstance(ex_, tuple) and ex_[0] == "upvar":
                    out["k_ok"] = VB.is_item(seg, upsk[ex_[1]])
            # nothing the inner closure captures is the requested order
            out["refs_order"] = any(is_order(u) for u in upsk)
    for x in walk(v):
        if isinstance(x, tuple) and x[0] in ("param", "upvar") and is_order(x):
            out["refs_order"] = True
    return out


def rule_moments_vector(ctx, prog, rule="R13"):
    """shape of the raw-moment vector built by the private `moments`: entry k is the k-th raw moment for every k <= order"""
    # prefix independence of `moments`: the k-th raw moment does not depend on `order`, and it is exactly Σ x^k / n
    _pv = prog.inlined_view() if hasattr(prog, "inlined_view") else prog        # conversion helpers in front of from_usize are read in place
    mo = _pv.find("summary_statistics::means::moments")
    tm = _pv.tracked(mo)
    okm = False
    detail = "anchor not recognised: the raw moments for k >= 2 are not produced by one loop / extend(map) over k"
    bulk = _bulk_build(prog, tm)
    if bulk is not None:
        vec, segs, seg = bulk
        sh = _raw_moment_shape(prog, seg)
        okm = sh["div"] and sh["n_ok"] and sh["src_ok"] and sh["powi_ok"] and sh["k_ok"] and not sh["refs_order"]
        detail = "the k-th raw moment is Σ x^k / n with k the loop variable only (independent of the requested order)" if okm else \
            ("the raw moment produced for k is `%s`, not sum(a.map(|x| x.powi(k))) / n with the exponent k itself and nothing depending on "
             "`order` (%s)" % (fmt(ds(seg["value"]))[:100], ", ".join("%s=%s" % kv for kv in sorted(sh.items()))))
    ctx.ob(rule, "moments/prefix-independent", okm, mo.where(), detail, what="raw moment k depends on the requested order")
    # entry 1 of the raw-moment vector (the mean of the shifted data, from which the correction term is read) is present for every
    # order >= 1: the push outside the k-loop is guarded by a condition that holds exactly for order >= 1
    from .rules_unsafe import bool_branch_dominating
    from .rules_result import eval_cond
    okf, fdetail = False, "anchor not recognised: no push of the first raw moment outside the k-loop"
    # the head of the vector is [one(), first moment]: the element at position 1 is the push whose guard is judged (a literal
    # there is unconditional)
    head_ = []
    for s_ in (bulk[1] if bulk else []):
        if s_[0] == "elems":
            head_.extend(("lit", x_) for x_ in s_[1])
        elif s_[0] == "push":
            head_.append(("push", s_[2]))
        elif s_[0] == "map":
            break
    outer = [h_[1] for h_ in head_[1:2] if h_[0] == "push"]
    if len(head_) == 2 and head_[1][0] == "lit":
        okf, fdetail = True, "moments[1] is part of the literal the vector starts with (present for every order)"
    if len(head_) == 2 and len(outer) == 1:
        doms = bool_branch_dominating(tm, outer[0], lambda de: True)
        badk = []
        for k in range(2, 7):      # both callers handle orders 0 and 1 themselves (order-0-1-constant) and pass n >= 2 only
            leaf = lambda e, k=k: k if (isinstance(e, tuple) and e[:2] == ("param", 2)) else None
            vals = [eval_cond(de, leaf) for _bb, _tv, de in doms]
            if any(v is None for v in vals):
                badk.append("order %d: condition not evaluable" % k)
                continue
            pushed = all(v == tv for v, (_bb, tv, _de) in zip(vals, doms))
            if not pushed:
                badk.append("order %d: first moment %s" % (k, "pushed" if pushed else "missing"))
        okf = not badk
        fdetail = "moments[1] is pushed for every order the callers pass (decided on orders 2..6)" if okf else "; ".join(badk[:3])
    ctx.ob(rule, "moments/first-moment-present", okf, mo.where(), fdetail, what="raw-moment vector lacks (or misplaces) the first moment")


def _is_iteration_item(prog, pb, pe):
    """pe is the item parameter of a closure that is handed to for_each/map/… of an iteration (`xs.iter().for_each(|&x| …)`)"""
    for _ in range(4):          # a component of a tuple item: |(result, &q)|
        if isinstance(pe, tuple) and pe[0] in ("field", "deref") and isinstance(ds(pe[1]), tuple):
            pe = ds(pe[1])
    if not (pb.is_closure and isinstance(pe, tuple) and pe[0] == "param" and pe[1] >= 2):
        return False
    site = prog.closure_site(pb.key)
    if site is None:
        return False
    ob_, obb, osi, _ups = site
    # the call that consumes the closure value
    for cbb, t in ob_.calls():
        if callee_name(t) not in ("for_each", "try_for_each", "map", "fold", "try_fold", "all", "any", "find", "flat_map", "filter_map", "filter",
                                  "find_map", "map_while", "inspect", "scan"):
            continue
        for a in ob_.call_arg_exprs(cbb)[1:]:
            a = ds(a)
            if isinstance(a, tuple) and a[0] == "agg" and a[1] == "closure" and a[2] == pb.key:
                recv = ds(ob_.call_arg_exprs(cbb)[0])
                return isinstance(recv, tuple) and recv[0] == "call" and recv[1] in (
                    "iter", "into_iter", "iter_mut", "zip", "indexed_iter", "enumerate",
                    # the item of an adaptor chain over such an iteration is still an element of it
                    "filter", "map", "cloned", "copied", "chain", "peekable", "by_ref", "rev", "skip", "take", "inspect")
    return False


def lane_uses_position_vector(prog, inner, lane):
    """the lane closure takes the neighbour positions from a vector built once, in request order, in the enclosing routine:
         V = [ (needs_lower(q) ? Some(lower_index(q, len)) : None, needs_higher(q) ? Some(higher_index(q, len)) : None)  for q in qs ]
         for ((result, q), (lo, hi)) in results.zip(qs).zip(&V):  interpolate(lo.map(|p| index_map[p]), hi.map(|p| index_map[p]), q, len)
    → (True, text) if exactly that; (False, why) if the shape is there but wrong; None if the lane closure does not have this shape"""
    calls = [(bb, t) for bb, t in lane.calls() if callee_name(t) == "interpolate"]
    if len(calls) != 1:
        return None
    a = [ds(x) for x in lane.call_arg_exprs(calls[0][0])]
    if len(a) < 4 or not all(isinstance(a[i], tuple) and a[i][0] == "call" and a[i][1] == "map" and len(a[i][3]) == 2 for i in (0, 1)):
        return None

    def item_path(e):
        """projection path of e below a `next(ITER)` call → (path outermost-last, iterator expression)"""
        path = []
        e = ds(e)
        while isinstance(e, tuple) and e[0] in ("field", "downcast"):
            if e[0] == "field":
                path.append(str(e[2]))
            e = ds(e[1])
        if isinstance(e, tuple) and e[0] == "call" and e[1] == "next" and e[3]:
            it = ds(e[3][0])
            while isinstance(it, tuple) and it[0] == "call" and it[1] == "into_iter" and it[3]:
                it = ds(it[3][0])
            return list(reversed(path)), it
        return None, None

    def zip_operand(it, path):
        """operand of a nested zip selected by the component path of its item (after the Some payload)"""
        for i_, p_ in enumerate(path):
            if not (isinstance(it, tuple) and it[0] == "call" and it[1] == "zip" and len(it[3]) == 2):
                return it, path[i_:]
            it = ds(it[3][int(p_)]) if p_ in ("0", "1") else None
            if it is None:
                return None, []
        return it, []
    qpath, qit = item_path(a[2])
    if qpath is None or qpath[:1] != ["0"]:
        return None
    qop, qrest = zip_operand(qit, qpath[1:])
    qroot = up(prog, lane, qop)[1] if qop is not None else None
    q_in_vector = False
    if qrest == ["0"] and qop is not None:
        # the request value travels with its positions: V = [(q, lower?, higher?) for q in qs]
        q_in_vector = True
        qvec_op = qop
    elif qrest or not (isinstance(ds(qroot), tuple) and ds(qroot)[0] == "param"):
        return False, "the q handed to the strategy is not an element of the request list zipped with the results"
    off = 1 if q_in_vector else 0
    vec = None
    for which in (0, 1):
        xpath, xit = item_path(a[which][3][0])
        if xpath is None or xit != qit or xpath[:1] != ["0"]:
            return False, "neighbour %d does not come from the same zip item as q" % which
        vop, vrest = zip_operand(xit, xpath[1:])
        if vrest != [str(which + off)]:
            return False, "neighbour %d is component %s of the position vector's item, expected %d" % (which, vrest, which + off)
        if q_in_vector and vop != qvec_op:
            return False, "q and the neighbour positions come from different vectors"
        vb, ve = up(prog, lane, vop)
        ve = ds(ve)
        while isinstance(ve, tuple) and ve[0] == "call" and ve[1] in ("iter", "into_iter", "deref", "as_slice") and ve[3]:
            ve = ds(ve[3][0])
        if vb is not inner or not (isinstance(ve, tuple) and ve[0] == "call" and ve[1] in ("with_capacity", "new")):
            return False, "the positions are not taken from a vector built in the enclosing routine (`%s`)" % fmt(ve)[:60]
        if vec is not None and ve != vec:
            return False, "lower and higher positions come from different vectors"
        vec = ve
        # the mapping closure looks the position up in the lane's index map
        cb, ups = closure_of(prog, a[which][3][1])
        cr = ds(cb.return_expr()) if cb is not None else None
        for _ in range(2):
            if isinstance(cr, tuple) and cr[0] == "call" and cr[1] in ("clone", "cloned") and cr[3]:
                cr = ds(cr[3][0])
        look_ok = isinstance(cr, tuple) and cr[0] == "call" and cr[1] == "index" and len(cr[3]) == 2 and ds(cr[3][1])[:2] == ("param", 2)
        if look_ok:
            mb, me_ = up(prog, cb, cr[3][0])
            me_ = ds(me_)
            look_ok = mb is lane and isinstance(me_, tuple) and me_[0] == "call" and me_[1] == "get_many_from_sorted_mut_unchecked"
        if not look_ok:
            return False, "neighbour %d is not `index_map[&position]` of this lane's selection" % which
    # the vector: one unconditional push per q, in request order, of (lower?, higher?)
    tb = prog.tracked(inner)
    pushes = []
    for bb, t in tb.calls():
        if callee_name(t) in ("push", "insert", "extend", "truncate", "pop", "clear", "reverse", "sort", "dedup", "swap", "retain"):
            recv = ds(tb.call_arg_exprs(bb)[0])
            base = recv
            seen = 0
            while isinstance(base, tuple) and base[0] == "phi" and seen < 4:
                outs = [ds(tb.def_expr(base[1], d)) for d in base[3]]
                outs = [o for o in outs if not (isinstance(o, tuple) and o[0] in ("phi", "mut"))]
                base = outs[0] if len(outs) == 1 else None
                seen += 1
            if base == vec or (isinstance(base, tuple) and isinstance(vec, tuple) and base[:2] == vec[:2] and base[-1] == vec[-1]):
                pushes.append((bb, callee_name(t)))
    if len(pushes) != 1 or pushes[0][1] != "push":
        return False, "the position vector is mutated by %s (exactly one push expected)" % [p_[1] for p_ in pushes]
    pbb = pushes[0][0]
    val = ds(tb.call_arg_exprs(pbb)[1])
    if not (isinstance(val, tuple) and val[0] == "agg" and len(val[3]) == 2 + off):
        return False, "pushed value is not a (lower?, higher?) pair" if not off else "pushed value is not a (q, lower?, higher?) triple"
    # loop: header = the `next` whose item feeds the pushed value; the push runs on every iteration
    hdr = None
    for bb, t in tb.calls():
        if callee_name(t) == "next" and bb in tb.reachable_from(pbb) and pbb in tb.reachable_from(bb):
            hdr = bb
    if hdr is None:
        return False, "the push is not inside a loop"
    backs = [p_ for p_ in tb.preds(hdr) if tb.dominates(hdr, p_)]
    if not backs or not all(tb.dominates(pbb, b_) for b_ in backs):
        return False, "the push is not executed on every iteration"
    it = ds(tb.call_arg_exprs(hdr)[0])
    srcs = []
    if isinstance(it, tuple) and it[0] == "phi":
        srcs = [ds(tb.def_expr(it[1], d)) for d in it[3] if d[0] not in ("entry",)]
        srcs = [x for x in srcs if not (isinstance(x, tuple) and x[0] in ("phi", "mut"))]
    src = srcs[0] if len(srcs) == 1 else it
    rb, re_, chain, bad = producer_chain(prog, tb, src)
    want_root = ds(qroot) if not q_in_vector else None
    if bad is not None or (want_root is not None and ds(re_) != want_root) or (q_in_vector and not (isinstance(ds(re_), tuple) and ds(re_)[0] == "param")) \
            or any(ch not in ("iter", "into_iter", "view", "deref") for ch in chain):
        return False, "the position vector is not built by one pass over the request list in request order (%s via %s)" % (fmt(ds(re_)), chain)
    item = ("field", ("downcast", tb.call_expr(hdr), "Some"), "0")
    if q_in_vector:
        qc = ds(val[3][0])
        if not any(isinstance(x, tuple) and x[0] == "call" and x[1] == "next" and x == ds(tb.call_expr(hdr)) for x in walk(qc)):
            return False, "component 0 of the pushed triple is not the request value of that iteration"
    for which, fn in ((0, "lower_index"), (1, "higher_index")):
        comp = ds(val[3][which + off])
        defs = []
        if isinstance(comp, tuple) and comp[0] == "phi":
            defs = [ds(tb.def_expr(comp[1], d)) for d in comp[3]]
        else:
            defs = [comp]
        somes = [d for d in defs if isinstance(d, tuple) and d[0] == "agg" and d[2] == "Some"]
        nones = [d for d in defs if isinstance(d, tuple) and d[0] == "agg" and d[2] == "None"]
        if len(somes) + len(nones) != len(defs) or not somes:
            return False, "component %d of the pushed pair is not Some(position) / None" % which
        for sd in somes:
            pv = ds(sd[3][0])
            okp = isinstance(pv, tuple) and pv[0] == "call" and pv[1] == fn and len(pv[3]) == 2 and \
                any(isinstance(x, tuple) and x[0] == "call" and x[1] == "next" for x in walk(pv[3][0])) and \
                isinstance(ds(pv[3][1]), tuple) and ds(pv[3][1])[0] == "call" and ds(pv[3][1])[1] == "len_of"
            if not okp:
                return False, "component %d holds `%s`, expected %s(q, axis_len)" % (which, fmt(pv)[:60], fn)
    return True, ("positions (needs_lower ? lower_index(q, len) : –, needs_higher ? higher_index(q, len) : –) are computed once per q in request "
                  "order and zipped with (result, q); each lane maps them through its own index map")


def rule_c18_quantiles(ctx, prog, rule="R13"):
    prog = prog.inlined_view()      # private helpers that do not exist on the reference tree are read in place
    qa = prog.method("QuantileExt", "quantile_axis_mut")
    # .map(|a| a.index_axis_move(axis, 0))
    ok = False
    detail = "no map(closure) on the bulk result"
    r = ds(qa.return_expr())
    if r[0] == "call" and r[1] == "map":
        cb, ups = closure_of(prog, r[3][1])
        if cb is not None:
            cr = ds(cb.return_expr())
            if cr[0] == "call" and cr[1] == "index_axis_move" and cr[3][0][:2] == ("param", 2):
                pb, ax = up(prog, cb, cr[3][1])
                ok = ds(ax)[:2] == ("param", 2) and pb.key == qa.key and ds(cr[3][2]) == ("const", "usize", 0)
                detail = "single = bulk with [q], then index_axis_move(axis, 0) along the caller's axis" if ok else \
                    "the single-q result is taken with index_axis_move(%s, %s)" % (fmt(ds(ax)), fmt(ds(cr[3][2])))
    if not ok:
        # `?` form:  let qs = self.quantiles_axis_mut(axis, &[q], i)?;  Ok(qs.index_axis_move(axis, 0))
        for _, v in success_values(qa):
            v = ds(v)
            if isinstance(v, tuple) and v[0] == "call" and v[1] == "index_axis_move" and len(v[3]) == 3:
                inner = unwrap_try(v[3][0])
                ok = isinstance(inner, tuple) and inner[0] == "call" and inner[1] == "quantiles_axis_mut" and \
                    ds(v[3][1])[:2] == ("param", 2) and ds(v[3][2]) == ("const", "usize", 0)
                detail = "single = bulk with [q]?, then index_axis_move(axis, 0) along the caller's axis" if ok else \
                    "the single-q result is `%s`" % fmt(v)[:120]
        if ok and len(success_values(qa)) != 1:
            ok = False
            detail = "more than one success value"
    ctx.ob(rule, "quantile_axis_mut/removes-the-q-axis", ok, qa.where(), detail, what="single quantile is not slice 0 of the bulk result along axis")
    qm = prog.method("Quantile1dExt", "quantile_mut")
    finals = [ds(qm.def_expr(0, d)) for d in qm.reaching_defs(0, qm.exits()[0], "term")]
    succ_finals = [f for f in finals if not (isinstance(f, tuple) and ((f[0] == "agg" and f[2] == "Err") or (f[0] == "call" and f[1] == "from_residual")))]
    ok = len(succ_finals) == 1 and any(isinstance(f, tuple) and f[0] == "agg" and f[2] == "Ok" and ds(f[3][0])[0] == "call" and ds(f[3][0])[1] == "into_scalar"
                                       and unwrap_try(ds(f[3][0])[3][0])[1] == "quantile_axis_mut" for f in finals)
    if not ok:
        # map form:  self.quantile_axis_mut(Axis(0), q, i).map(|x| x.into_scalar())
        for f in finals:
            if isinstance(f, tuple) and f[0] == "call" and f[1] == "map" and len(f[3]) == 2:
                inner = ds(f[3][0])
                cbm, _ups = closure_of(prog, f[3][1])
                if cbm is not None and isinstance(inner, tuple) and inner[0] == "call" and inner[1] == "quantile_axis_mut":
                    crm = ds(cbm.return_expr())
                    ok = isinstance(crm, tuple) and crm[0] == "call" and crm[1] == "into_scalar" and ds(crm[3][0])[:2] == ("param", 2) and len(finals) == 1
    ctx.ob(rule, "quantile_mut/into_scalar", ok, qm.where(), "= quantile_axis_mut(Axis(0), q, interpolate)?.into_scalar()" if ok else
           "1-D single quantile is not the scalar of the axis form", what="1-D wrapper differs")
    # the bulk closure: j-th output ↔ j-th q, push and lookup guarded by the same predicates
    inner = prog.find("QuantileExt<A, S, D>>::quantiles_axis_mut::quantiles_axis_mut")
    clos = prog.closures_of(inner)
    lane = [c for c in clos if any(callee_name(t) == "get_many_from_sorted_mut_unchecked" for _, t in c.calls())]
    ok = len(lane) == 1
    if ok:
        c = lane[0]
        # needs_lower/needs_higher/lower_index/higher_index argument agreement between the collecting loop and the lookup
        def sig(b0, exclude=None):
            out = set()
            group = [b0] + [x for x in prog.bodies.values() if x.is_closure and x.key.startswith(b0.key + "::")]
            if exclude is not None:
                # the collecting side is everything of the routine that is *not* the per-lane lookup closure
                group = [x for x in group if not (x.key == exclude or x.key.startswith(exclude + "::"))]
            for b, bb, t in [(g, bb, t) for g in group for bb, t in g.calls()]:
                nm = callee_name(t)
                if nm in ("needs_lower", "needs_higher", "lower_index", "higher_index"):
                    args = []
                    for a in b.call_arg_exprs(bb):
                        pb, pe = up(prog, b, a)
                        pe = ds(pe)
                        # q: an element of an iteration over qs ; axis_len: len_of(data, axis)
                        if any(x[0] == "call" and x[1] == "next" for x in walk(pe) if isinstance(x, tuple)):
                            args.append("q-element")
                        elif _is_iteration_item(prog, pb, pe):
                            args.append("q-element")
                        else:
                            args.append(fmt(canon_expr(prog, pb, pe))[:60])
                    out.add((nm, tuple(args)))
            return out
        s_collect, s_lookup = sig(inner, exclude=c.key), sig(c)
        ok = s_collect == s_lookup and len(s_collect) == 4
        # … and each computed neighbour position really flows into the searched vector: it occurs in what is pushed / extended
        # (through Some(..), into_iter, chain, the value returned by a flat_map closure, …), not merely computed
        cgroup = [inner] + [x for x in prog.bodies.values() if x.is_closure and x.key.startswith(inner.key + "::")
                            and not (x.key == c.key or x.key.startswith(c.key + "::"))]
        sinks = []
        for g in cgroup:
            for bb_, t_ in g.calls():
                if callee_name(t_) in ("push", "extend", "insert", "append", "extend_from_slice", "push_back"):
                    sinks.extend(g.call_arg_exprs(bb_)[1:])
        flowing = set()
        seen_cl = set()
        seen_phi = set()
        work = []
        for g in cgroup:
            for bb_, t_ in g.calls():
                if callee_name(t_) in ("push", "extend", "insert", "append", "extend_from_slice", "push_back"):
                    work.extend((g, a_) for a_ in g.call_arg_exprs(bb_)[1:])
        while work:
            g_, e_ = work.pop()
            for x in walk(e_):
                if not isinstance(x, tuple):
                    continue
                if x[0] == "call" and x[1] in ("lower_index", "higher_index"):
                    flowing.add(x[1])
                if x[0] == "agg" and x[1] == "closure" and x[2] in prog.bodies and x[2] not in seen_cl:
                    seen_cl.add(x[2])
                    work.append((prog.bodies[x[2]], prog.bodies[x[2]].return_expr()))
                if x[0] == "phi" and (g_.key, x[1]) not in seen_phi:
                    # a value chosen on several paths (`if needs { Some(pos) } else { None }`): every definition is a candidate
                    seen_phi.add((g_.key, x[1]))
                    for d_ in x[3]:
                        if d_[0] not in ("entry", "partial"):
                            try:
                                work.append((g_, g_.def_expr(x[1], d_)))
                            except Exception:
                                pass
        computed = {nm for (nm, _a) in s_collect if nm in ("lower_index", "higher_index")}
        lost = sorted(computed - flowing)
        flow_detail = None
        if ok and lost and sinks:
            ok = False
            flow_detail = "the position computed by %s is not part of what is added to the searched index vector" % ", ".join(lost)
        # … under the right polarity: a position is looked up whenever its needs_* predicate holds, so it must be collected at
        # least then – the collection of X_index may be unconditional or on the true side of needs_X, never on a false side and
        # never on a side decided by the other predicate alone
        from .rules_unsafe import branch_dominates
        pol_detail = None
        lgroup = [c] + [x for x in prog.bodies.values() if x.is_closure and x.key.startswith(c.key + "::")]
        for side, grp in (("collected", cgroup), ("looked up", lgroup)):
            for g in grp:
                needs_sw = []
                for bb_ in g.live_blocks():
                    t_ = g.term(bb_)
                    if t_["k"] != "switch" or t_.get("discr_ty") != "bool":
                        continue
                    de_ = ds(g.switch_discr_expr(bb_))
                    flip = False
                    while isinstance(de_, tuple) and ((de_[0] == "unop" and de_[1] == "Not") or (de_[0] == "call" and de_[1] == "not" and len(de_[3]) == 1)):
                        de_ = ds(de_[2] if de_[0] == "unop" else de_[3][0])
                        flip = not flip
                    if isinstance(de_, tuple) and de_[0] == "call" and de_[1] in ("needs_lower", "needs_higher"):
                        f_ = [tgt for v_, tgt in t_["arms"] if v_ == 0]
                        if f_:
                            tside, fside = (t_["otherwise"], f_[0]) if not flip else (f_[0], t_["otherwise"])
                            needs_sw.append((bb_, de_[1], tside, fside))
                if not needs_sw:
                    continue
                sites_of = {"lower_index": [], "higher_index": []}
                for bb_, t_ in g.calls():
                    nm_ = callee_name(t_)
                    which = set()
                    if nm_ in ("lower_index", "higher_index"):
                        which.add(nm_)
                    elif nm_ in ("push", "extend", "insert", "append", "extend_from_slice", "push_back", "index", "get"):
                        for a_ in g.call_arg_exprs(bb_)[1:]:
                            for x in walk(a_):
                                if isinstance(x, tuple) and x[0] == "call" and x[1] in ("lower_index", "higher_index"):
                                    which.add(x[1])
                    for w_ in which:
                        sites_of[w_].append(bb_)
                        want = "needs_lower" if w_ == "lower_index" else "needs_higher"
                        own_true = any(pn == want and sb != bb_ and branch_dominates(g, sb, tside, bb_) for (sb, pn, tside, fside) in needs_sw)
                        own_false = any(pn == want and sb != bb_ and branch_dominates(g, sb, fside, bb_) and not branch_dominates(g, sb, tside, bb_)
                                        for (sb, pn, tside, fside) in needs_sw)
                        other = any(pn != want and sb != bb_ and (branch_dominates(g, sb, tside, bb_) or branch_dominates(g, sb, fside, bb_))
                                    for (sb, pn, tside, fside) in needs_sw)
                        if own_false:
                            pol_detail = "%s is %s only when %s(q, len) is false" % (w_, side, want)
                        elif not own_true and other and any(pn == want for (_s, pn, _t, _f) in needs_sw):
                            pol_detail = "%s is %s under the other predicate, not under %s" % (w_, side, want)
                # coverage: every decision on needs_X has X_index on its true side (a `match (needs_lower, needs_higher)` decides
                # needs_higher twice – once under each outcome of needs_lower – and each true side must carry the position)
                for (sb, pn, tside, fside) in needs_sw:
                    w_ = "lower_index" if pn == "needs_lower" else "higher_index"
                    ss = sites_of[w_]
                    # blocks reachable from the true side without re-entering the decision's own dominators (the loop header of the per-q
                    # loop dominates it: the next iteration is not "the same q")
                    doms_ = {d_ for d_ in g.live_blocks() if g.dominates(d_, sb)}
                    seen_, stack_ = set(), [tside]
                    while stack_:
                        y_ = stack_.pop()
                        if y_ in seen_ or y_ in doms_:
                            continue
                        seen_.add(y_)
                        stack_.extend(g.succ(y_))
                    if ss and not any(x_ in seen_ for x_ in ss):
                        pol_detail = "%s is not %s on a path where %s(q, len) is true" % (w_, side, pn)
        if ok and pol_detail:
            ok = False
            flow_detail = pol_detail
        if not ok and not s_lookup and len(s_collect) == 4:
            pv = lane_uses_position_vector(prog, inner, c)
            if pv is not None and pv[0]:
                ok = True
                s_lookup = s_collect
        ctx.ob(rule, "quantiles_axis_mut/push-lookup-agree", ok, c.where(),
               "indexes are collected and looked up under the same needs_lower/needs_higher(q, axis_len) and lower/higher_index(q, axis_len)" if ok else
               (flow_detail or "collection uses %s, lookup uses %s" % (sorted(s_collect), sorted(s_lookup))), what="bulk quantile looks up an index it did not select")
    else:
        ctx.ob(rule, "quantiles_axis_mut/push-lookup-agree", False, inner.where(), "anchor not recognised: lane closure not found", what="anchor not recognised")


# ======================================================================================= central-moment pipeline identity

def _eval_small(t, env):
    k = t[0]
    if k == "sym":
        return env[t[1]]
    if k == "num":
        return t[1]
    if k == "add":
        return _eval_small(t[1], env) + _eval_small(t[2], env)
    if k == "sub":
        return _eval_small(t[1], env) - _eval_small(t[2], env)
    if k == "mul":
        return _eval_small(t[1], env) * _eval_small(t[2], env)
    raise Unrecognised("term %s" % show(t))


def rule_moment_pipeline(ctx, prog, rule="R19"):
    """central_moment(p) is computed as horner( [C(r,k)·m_{p−k}]_k , t ) with m_j the raw moments of the shifted data and
    t = −m_1.  For this to be the p-th central moment as a polynomial identity in t (not only at t = 0, which floating point
    never hits) the binomial row r must be p, coefficient k must pair with m_{p−k}, Horner must evaluate Σ c_k t^k, and m_j
    must be Σ y^j / n.  Each fact is read off the MIR; the identity Σ_k C(r,k) y^{p−k} t^k = (y + t)^p is then checked for
    p = 2..10 on the extracted row function."""
    from math import comb
    cc = prog.find("summary_statistics::means::central_moment_coefficients")
    r = ds(cc.return_expr())
    ok_shape = False
    row = None
    detail = "coefficients are `%s`" % fmt(r)[:160]
    if r[0] == "call" and r[1] == "collect":
        m = ds(r[3][0])
        if m[0] == "call" and m[1] == "map" and len(m[3]) == 2:
            z = ds(m[3][0])
            cb, ups = closure_of(prog, m[3][1])
            if z[0] == "call" and z[1] == "zip" and cb is not None:
                binom, mom = ds(z[3][0]), ds(z[3][1])
                # binomial side
                if binom[0] == "call" and binom[1] == "new" and "IterBinomial" in binom[2]:
                    K = Kernel(prog, cc, lambda e: ("sym", "L") if (isinstance(e, tuple) and e[0] == "call" and e[1] == "len"
                                                                     and ds(e[3][0])[:2] == ("param", 1)) else None)
                    try:
                        row = K.term(binom[3][0])
                    except Unrecognised:
                        row = None
                # moments side: reversed iteration over the parameter
                rev_ok = mom[0] == "call" and mom[1] == "rev" and ds(mom[3][0])[0] == "call" and ds(mom[3][0])[1] == "iter" \
                    and ds(ds(mom[3][0])[3][0])[:2] == ("param", 1)
                ret, _ = closure_terms(prog, cb, {(2, "0"): ("sym", "binom"), (2, "1"): ("sym", "moment")})
                prod_ok = canon_op(ret) == canon_op(("mul", ("sym", "binom"), ("sym", "moment")))
                ok_shape = rev_ok and prod_ok and row is not None
                detail = "coefficient k = C(row, k) · moments[len−1−k]" if ok_shape else \
                    "reversed moments=%s product=%s row=%s" % (rev_ok, prod_ok, show(row) if row else None)
    if not ok_shape:
        # loop form: a Vec constructor filled by `push(from_usize(binom) · moment)` for (binom, &moment) in IterBinomial::new(row).zip(moments.iter().rev())
        try:
            tcc = prog.tracked(cc)
            lp = T.Loop(tcc)
            it = lp.iterator()
            pushes = [(pb, t) for pb, t in tcc.calls() if callee_name(t) == "push" and pb in lp.blocks]
            others = [(pb, t) for pb, t in tcc.calls() if callee_name(t) in ("push", "insert", "extend", "truncate", "pop", "clear", "reverse", "sort") and pb not in lp.blocks]
            if it is not None and len(pushes) == 1 and not others:
                il, item, iinit = it
                z = ds(iinit)
                while z[0] == "call" and z[1] == "into_iter":
                    z = ds(z[3][0])
                if z[0] == "call" and z[1] == "zip":
                    binom, mom = ds(z[3][0]), ds(z[3][1])
                    if binom[0] == "call" and binom[1] == "new" and "IterBinomial" in binom[2]:
                        K = Kernel(prog, cc, lambda e: ("sym", "L") if (isinstance(e, tuple) and e[0] == "call" and e[1] == "len"
                                                                         and ds(e[3][0])[:2] == ("param", 1)) else None)
                        try:
                            row = K.term(binom[3][0])
                        except Unrecognised:
                            row = None
                    rev_ok = mom[0] == "call" and mom[1] == "rev" and ds(mom[3][0])[0] == "call" and ds(mom[3][0])[1] == "iter" \
                        and ds(ds(mom[3][0])[3][0])[:2] == ("param", 1)
                    item_d = ds(item)

                    def pleaf(e):
                        if isinstance(e, tuple) and e[0] == "field" and ds(e[1]) == item_d:
                            return ("sym", "binom") if str(e[2]) == "0" else ("sym", "moment")
                        return None
                    Kp = Kernel(prog, tcc, pleaf)
                    pv = Kp.term(tcc.call_arg_exprs(pushes[0][0])[1])
                    prod_ok = canon_op(pv) == canon_op(("mul", ("sym", "binom"), ("sym", "moment")))
                    # the returned vector is the one pushed to
                    rv_ = ds(tcc.return_expr())
                    recv = ds(tcc.call_arg_exprs(pushes[0][0])[0])
                    ret_ok = rv_ == recv or (isinstance(rv_, tuple) and rv_[0] == "call" and rv_[1] in ("with_capacity", "new"))
                    ok_shape = rev_ok and prod_ok and row is not None and ret_ok
                    detail = "coefficient k = C(row, k) · moments[len−1−k] (pushed in a loop over the zip)" if ok_shape else \
                        "loop form: reversed moments=%s product=%s row=%s returns-vector=%s" % (rev_ok, prod_ok, show(row) if row else None, ret_ok)
        except Unrecognised as ex:
            detail += " / loop form: %s" % ex
    ctx.ob(rule, "central_moment_coefficients/shape", ok_shape, cc.where(), detail, what="anchor not recognised" if not ok_shape else "")
    if ok_shape:
        bad = []
        for p in range(2, 11):
            rr = _eval_small(row, {"L": p + 1})
            # identity Σ_k C(rr,k) y^{p-k} t^k == (y+t)^p  ⇔  C(rr,k) == C(p,k) for k = 0..p
            if any(comb(rr, k) != comb(p, k) for k in range(0, p + 1)):
                bad.append((p, rr))
        okr = not bad
        key = "central_moment_coefficients/binomial-row" + ("" if okr else "/found:row=%s" % show(row))
        ctx.ob(rule, key, okr, cc.where(),
               "binomial row is len(moments) − 1 = p: Σ_k C(p,k)·m_{p−k}·t^k = (1/n)Σ(y+t)^p is an identity in t (checked p = 2..10)" if okr else
               "the coefficients use binomial row `%s` with L = len(moments) = p+1, i.e. C(%d,k) for order p = %d: "
               "Σ_k C(row,k)·m_{p−k}·t^k ≠ (1/n)Σ(y+t)^p unless t = 0. In floating point t = −mean(x − x̄) ≠ 0 (≈ u·|x̄|), so the correction "
               "is wrong and central moments of order ≥ 3 lose accuracy proportionally to |mean|/spread"
               % (show(row), bad[0][1], bad[0][0]), what="central-moment correction polynomial is not an identity")
    # Horner: result' = coefficient + t·result over the reversed coefficients, from zero
    hb = prog.find("summary_statistics::means::horner_method")
    try:
        tb = prog.tracked(hb)
        folds = [(bb, t) for bb, t in tb.calls() if callee_name(t) == "fold" and (t["callee"].get("trait") or "").endswith("Iterator")]
        if folds:
            bb, t = folds[0]
            a = tb.call_arg_exprs(bb)
            cb, ups = closure_of(prog, a[2])
            ret, _ = closure_terms(prog, cb, {2: ("sym", "ACC"), 3: ("sym", "e0")}, upvar_leaf=lambda e: ("sym", "indeterminate"))
            src = ds(a[0])
            chain = []
            while src[0] == "call" and src[1] in ("into_iter", "rev", "iter"):
                chain.append(src[1])
                src = ds(src[3][0])
            Kh = Kernel(prog, tb, lambda e: None)
            okh = canon_op(ret) == canon_op(("add", ("sym", "e0"), ("mul", ("sym", "indeterminate"), ("sym", "ACC")))) and \
                Kh.term(a[1]) == ("num", 0) and chain.count("rev") == 1 and src[:2] == ("param", 1) and ds(tb.return_expr())[:2] == ("call", "fold")
            ctx.ob(rule, "horner_method/recurrence", okh, hb.where(),
                   "fold(0, |r, c| c + t·r) over the coefficients in reverse: evaluates Σ c_k t^k" if okh else
                   "Horner fold is step=%s reversed=%s" % (show(ret), chain), what="polynomial not evaluated by Horner's rule")
            raise StopIteration
        lp = T.Loop(tb)
        it = lp.iterator()
        if it is None:
            raise Unrecognised("loop without a recognisable iterator")
        il, item, iinit = it
        accs = [l for l in lp.carried if l != il and tb.local_name(l) and not (il is None and "adt:std::vec::Vec" in " ".join(tb.local_flags(l)))]
        if len(accs) != 1:
            raise Unrecognised("%d loop-carried accumulators" % len(accs))
        acc = accs[0]
        phi = ds(lp.head_phi(acc))
        item_d = ds(item)

        def hleaf(e):
            if e == phi:
                return ("sym", "ACC")
            if e == item_d:
                return ("sym", "e0")
            if isinstance(e, tuple) and e[0] == "param":
                return ("sym", tb.local_name(e[1]) or "p%d" % e[1])
            return None
        Kh = Kernel(prog, tb, hleaf)
        step = Kh.term(lp.step_expr(acc))
        init = Kh.term(lp.init_expr(acc))
        step_ok = canon_op(step) == canon_op(("add", ("sym", "e0"), ("mul", ("sym", "indeterminate"), ("sym", "ACC"))))
        src = ds(iinit)
        chain = []
        while src[0] == "call" and src[1] in ("into_iter", "rev", "iter"):
            chain.append(src[1])
            src = ds(src[3][0])
        rev_ok = chain.count("rev") == 1 and src[:2] == ("param", 1)
        ret_ok = ds(tb.return_expr()) == phi
        okh = step_ok and init == ("num", 0) and rev_ok and ret_ok
        ctx.ob(rule, "horner_method/recurrence", okh, hb.where(),
               "r ← c_k + t·r from 0 over the coefficients in reverse: evaluates Σ c_k t^k" if okh else
               "Horner loop is init=%s step=%s reversed=%s returns-acc=%s" % (show(init), show(step), rev_ok, ret_ok),
               what="polynomial not evaluated by Horner's rule")
    except StopIteration:
        pass
    except Unrecognised as ex:
        unrec(ctx, rule, "horner_method/recurrence", hb.where(), ex)
    # raw moments: m_0 = one(), m_1 = Σ/n, m_k = Σ x^k / n
    _pv = prog.inlined_view() if hasattr(prog, "inlined_view") else prog        # conversion helpers in front of from_usize are read in place
    mo = _pv.find("summary_statistics::means::moments")
    tm = _pv.tracked(mo)
    try:
        from . import vecbuild as VB
        bulk = _bulk_build(prog, tm)
        if bulk is None:
            raise Unrecognised("the raw moments for k >= 2 are not produced by one loop / extend(map) over k")
        vec, segs, seg = bulk
        head = []
        for s_ in segs:
            if s_[0] == "elems":
                head.extend(s_[1])
            elif s_[0] == "push":
                head.append(s_[1])
            elif s_[0] == "map":
                break
        m0 = len(head) >= 1 and isinstance(head[0], tuple) and head[0][0] == "call" and head[0][1] == "one" and not any(s_[0] == "other" for s_ in segs) \
            and segs[-1][0] == "map"
        n_leaf = lambda e: ("sym", "N") if (isinstance(e, tuple) and e[0] == "call" and e[1] == "len" and ds(e[3][0])[:2] == ("param", 1)) else None

        def leaf(e):
            r_ = n_leaf(e)
            if r_:
                return r_
            if isinstance(e, tuple) and e[0] == "call" and e[1] == "sum" and "ndarray" in e[2]:
                x = ds(e[3][0])
                if x[:2] == ("param", 1):
                    return ("sym", "Σy")
            return None
        Km = Kernel(prog, tm, leaf)
        t1 = Km.term(head[1]) if len(head) == 2 else None
        sh = _raw_moment_shape(prog, seg)
        tk = ("div", ("sym", "Σy^k"), ("sym", "N")) if (sh["div"] and sh["n_ok"] and sh["src_ok"] and sh["powi_ok"] and sh["k_ok"]) else None
        rg = VB.range_of(seg["source"])
        rng_ok = rg is not None and rg[2] is True and rg[0][:1] == ("const",) and rg[0][2] == 2
        okm = m0 and t1 == ("div", ("sym", "Σy"), ("sym", "N")) and tk == ("div", ("sym", "Σy^k"), ("sym", "N")) and rng_ok
        ctx.ob(rule, "moments/raw-moments", okm, mo.where(),
               "m_0 = one(), m_1 = Σy/n, m_k = Σy^k/n for k = 2..=order (pushed in order)" if okm else
               "raw moments: m0 literal=%s m1=%s mk=%s range-from-2=%s" % (m0, show(t1) if t1 else None, show(tk) if tk else None, rng_ok),
               what="raw moments are not Σ y^k / n")
    except Unrecognised as ex:
        unrec(ctx, rule, "moments/raw-moments", mo.where(), ex)


def rule_moment_shift(ctx, prog, rule="R19"):
    """the raw moments are taken of the data *shifted by its mean* (first pass of the two-pass algorithm): the binomial
    correction is an identity for any shift, so un-shifted data would still be exact in exact arithmetic – and lose every digit to
    cancellation for data with |mean| ≫ spread.  Necessary for the forward-error clause of C07."""
    from .facts import inline_calls
    keep = ("moments", "central_moment_coefficients", "horner_method")
    filt = lambda cb: cb.key not in prog.exported and len(cb.blocks) <= 60 and cb.name not in keep and not cb.raw.get("unsafe_fn")
    for name in ("central_moment", "central_moments"):
        root = prog.method("SummaryStatisticsExt", name)
        b = prog.tracked(inline_calls(prog, root, filt))
        sites = [(bb, t) for bb, t in b.calls() if callee_name(t) == "moments" and (t["callee"].get("path") or "").startswith("summary_statistics::")]
        ok = len(sites) == 1
        detail = "%d calls of `moments`" % len(sites)
        if ok:
            a0 = ds(b.call_arg_exprs(sites[0][0])[0])
            ok = False
            detail = "raw moments are taken of `%s`" % fmt(a0)[:100]
            if isinstance(a0, tuple) and a0[0] == "call" and a0[1] in ("mapv", "map", "mapv_into") and len(a0[3]) == 2 and ds(a0[3][0])[:2] == ("param", 1):
                cb, ups = closure_of(prog, a0[3][1])
                if cb is not None:
                    def upleaf(e):
                        return ("sym", "^%d" % e[1])
                    try:
                        ret, _ = closure_terms(prog, cb, {2: ("sym", "x")}, upvar_leaf=upleaf)
                    except Unrecognised as ex:
                        ret = None
                        detail = "shift closure not recognised: %s" % ex
                    if ret is not None and ret[0] == "sub" and ret[1] == ("sym", "x") and ret[2][0] == "sym" and ret[2][1].startswith("^"):
                        ui = int(ret[2][1][1:])
                        uv = unwrap_try(ds(ups[ui])) if ui < len(ups) else None
                        ok = isinstance(uv, tuple) and uv[0] == "call" and uv[1] == "mean" and ds(uv[3][0])[:2] == ("param", 1)
                        detail = "moments(self.mapv(|x| x − self.mean()), order)" if ok else "the data are shifted by `%s`, not by self.mean()" % fmt(uv)[:80]
                    elif ret is not None:
                        detail = "the data are mapped with `%s`, not shifted by the mean" % show(ret)
        ctx.ob(rule, "%s/data-shifted-by-mean" % name, ok, root.where(), detail, what="raw moments taken of un-centred data (cancellation)")


# ======================================================================================= C01 interpolation layer

def fn_term(prog, body, names, depth=0, pick_field=None, kernel_cls=None):
    """T-term of the value a loop-free, branch-free crate function returns, private helper calls inlined
    (pick_field: the function returns a tuple aggregate and only that component is wanted)"""
    tb = prog.tracked(body)

    def local_helper(e):
        if isinstance(e, tuple) and e[0] == "call" and e[2].startswith("quantile::interpolate::") and depth < 4:
            cb = prog.bodies.get(e[2])
            if cb is not None and not any(cb.term(bb)["k"] == "switch" for bb in cb.live_blocks()):
                return cb
        return None

    def leaf(e):
        if isinstance(e, tuple) and e[0] == "param" and e[1] in names:
            return names[e[1]]
        cb = local_helper(e)
        if cb is not None and any(isinstance(ds(a), tuple) and ds(a)[:2] == ("agg", "closure") for a in e[3]):
            return None      # a helper taking a closure: Kernel.term evaluates it with the closure kept symbolic until it is called
        if cb is not None:
            sub = {}
            for i, a in enumerate(e[3]):
                a2 = ds(a)
                if isinstance(a2, tuple) and a2[0] == "fn":
                    sub[i + 1] = ("fnval", a2[1].rsplit("::", 1)[-1])       # a function item handed over as a value
                else:
                    sub[i + 1] = K.term(a)
            return fn_term(prog, cb, sub, depth + 1, kernel_cls=kernel_cls)
        if isinstance(e, tuple) and e[0] == "field":
            base = ds(e[1])
            cb = local_helper(base)
            if cb is not None:
                return fn_term(prog, cb, {i + 1: K.term(a) for i, a in enumerate(base[3])}, depth + 1, pick_field=int(e[2]), kernel_cls=kernel_cls)
        return None
    K = (kernel_cls or Kernel)(prog, tb, leaf)
    r = tb.return_expr()
    if pick_field is not None:
        rr = ds(r)
        if not (isinstance(rr, tuple) and rr[0] == "agg" and pick_field < len(rr[3])):
            raise Unrecognised("helper does not return a tuple aggregate: `%s`" % fmt(rr)[:80])
        r = rr[3][pick_field]
    return K.term(r)


def origin_calls(body, e, names, depth=0, seen=None):
    """names of the calls (among `names`) a value can originate from, following moves, Option/tuple construction and projection,
    clones / look-ups, and every definition of a value chosen on several paths"""
    seen = seen if seen is not None else set()
    if depth > 40:
        return set()
    try:
        e = ds(e)
    except Exception:
        pass
    if not isinstance(e, tuple) or not e:
        return set()
    k = e[0]
    if k == "phi":
        key = (body.key, e[1], tuple(map(str, e[3])))
        if key in seen:
            return set()
        seen.add(key)
        out = set()
        for d_ in e[3]:
            if d_[0] in ("entry", "partial"):
                continue
            try:
                out |= origin_calls(body, body.def_expr(e[1], d_), names, depth + 1, seen)
            except Exception:
                pass
        return out
    if k == "field" and len(e) >= 3:
        x = e[1]
        try:
            x = ds(x)
        except Exception:
            pass
        if isinstance(x, tuple) and x and x[0] == "agg" and str(e[2]).isdigit() and int(e[2]) < len(x[3]) and x[1] in ("tuple",):
            return origin_calls(body, x[3][int(e[2])], names, depth + 1, seen)
        if isinstance(x, tuple) and x and x[0] == "phi":
            out = set()
            for d_ in x[3]:
                if d_[0] in ("entry", "partial"):
                    continue
                try:
                    out |= origin_calls(body, ("field", body.def_expr(x[1], d_), e[2]), names, depth + 1, seen)
                except Exception:
                    pass
            return out
        return origin_calls(body, x, names, depth + 1, seen)
    if k in ("downcast", "deref", "ref", "cast", "unop"):
        return origin_calls(body, e[2] if k in ("cast", "unop") else e[1], names, depth + 1, seen)
    if k == "agg":
        out = set()
        for x in e[3]:
            out |= origin_calls(body, x, names, depth + 1, seen)
        return out
    if k == "call":
        if e[1] in names:
            return {e[1]}
        out = set()
        for x in e[3]:
            out |= origin_calls(body, x, names, depth + 1, seen)
        return out
    return set()


def rule_quantiles_fill_value(ctx, prog):
    prog = prog.inlined_view()      # private helpers that do not exist on the reference tree are read in place
    inner = prog.find("QuantileExt<A, S, D>>::quantiles_axis_mut::quantiles_axis_mut")
    # the fill value `data.first().unwrap()` is evaluated only once the result (hence the data) is known to be non-empty: a
    # zero-length *other* axis must yield the empty result (C17: Ok, never a panic), not reach this unwrap
    from .rules_unsafe import bool_branch_dominating
    tbi = prog.tracked(inner)
    okf, fdetail, nf = True, "no first().unwrap() on the data", 0
    for bb, t in tbi.calls():
        if callee_name(t) in ("unwrap", "expect"):
            a0 = ds(tbi.call_arg_exprs(bb)[0])
            if isinstance(a0, tuple) and a0[0] == "call" and a0[1] == "first" and ds(a0[3][0])[:2] == ("param", 1):
                nf += 1

                def size_zero(e):
                    e = ds(e)
                    if isinstance(e, tuple) and e[0] == "binop" and e[1] == "Eq":
                        l_, r_ = ds(e[2]), ds(e[3])
                        return isinstance(l_, tuple) and l_[0] == "call" and l_[1] in ("size", "len", "is_empty") and r_ == ("const", "usize", 0)
                    return isinstance(e, tuple) and e[0] == "call" and e[1] == "is_empty"
                if not any(x_[1] is False for x_ in bool_branch_dominating(tbi, bb, size_zero)):
                    okf, fdetail = False, "data.first().unwrap() at %s is reached without the result shape being known non-empty" % tbi.where(bb, "term")
                else:
                    fdetail = "data.first().unwrap() only after `results_shape.size() == 0` was excluded"
    ctx.ob("R30", "quantiles_axis_mut/fill-value-after-emptiness-check", okf, inner.where(), fdetail, what="empty result surfaces as a panic")


def rule_c01_interpolation(ctx, prog, rule="R19"):
    prog = prog.inlined_view()      # private helpers that do not exist on the reference tree are read in place
    rec = Recorder(ctx, rule)
    q, n = ("sym", "q"), ("sym", "len")
    IDX = ("mul", q, ("sub", n, ("num", 1)))
    qn = {1: q, 2: n}
    # index arithmetic
    for name, spec in (("lower_index", ("fn", "floor", IDX)), ("higher_index", ("fn", "ceil", IDX))):
        b = prog.find("quantile::interpolate::%s" % name)
        try:
            t = fn_term(prog, b, qn)
            ok = canon_op(t) == canon_op(spec)
            ctx.ob(rule, "%s/formula" % name, ok, b.where(), "= %s" % show(spec) if ok else "computes `%s`, documented `%s`" % (show(t), show(spec)),
                   what="quantile index arithmetic differs from (N−1)q floor/ceil/fract")
        except Unrecognised as ex:
            unrec(ctx, rule, "%s/formula" % name, b.where(), ex)
    # strategy table
    lo, hi = ("sym", "lower"), ("sym", "higher")
    FR = ("fn", "fract", IDX)

    def impl(strategy, item):
        return prog.find("<quantile::interpolate::%s as quantile::interpolate::Interpolate<T>>::%s" % (strategy, item))

    def const_bool(b):
        r = ds(b.return_expr())
        if isinstance(r, tuple) and r[0] == "const" and isinstance(r[2], bool):
            return r[2]
        return None
    table = {"Higher": (False, True), "Lower": (True, False), "Midpoint": (True, True), "Linear": (True, True)}
    for s_, (nl, nh) in table.items():
        gl, gh = const_bool(impl(s_, "needs_lower")), const_bool(impl(s_, "needs_higher"))
        ctx.ob(rule, "%s/needs" % s_, (gl, gh) == (nl, nh), impl(s_, "needs_lower").where(),
               "needs_lower = %s, needs_higher = %s" % (nl, nh) if (gl, gh) == (nl, nh) else "needs_lower/higher are %s/%s, expected %s/%s" % (gl, gh, nl, nh),
               what="strategy requests the wrong neighbours")
    # Nearest: lower iff fraction < 0.5 ; higher = !lower ; interpolate = lower-needed ? lower : higher.
    # Each of the three functions is read as a guarded-value table over atomic comparisons (dtree.Table), private helpers
    # of the module inlined, so the spelling (if / !helper / match on a private enum) does not matter.
    from .dtree import Table, NoTable
    nlb = impl("Nearest", "needs_lower")

    def local_helper(cb):
        return cb.key.startswith("quantile::interpolate::") or "quantile::interpolate::" in cb.key

    def leafless(cb):
        # inline everything of the module except the index arithmetic itself (kept as a term leaf)
        return local_helper(cb) and cb.key.split("::")[-1] not in ("float_quantile_index_fraction", "float_quantile_index", "lower_index", "higher_index")

    def table_of(b, pmap):
        def canon(e, body):
            def leaf(x):
                if isinstance(x, tuple) and x[0] == "param":
                    return pmap.get(x[1])
                if isinstance(x, tuple) and x[0] == "call" and x[2] in prog.bodies and x[2].startswith("quantile::interpolate::"):
                    return fn_term(prog, prog.bodies[x[2]], {i + 1: Kn.term(a) for i, a in enumerate(x[3])})
                return None
            Kn = Kernel(prog, body, leaf)
            return canon_op(Kn.term(e))
        return Table(prog, b, canon, should_inline=leafless).finish()
    HALF = canon_op(("num", 0.5))
    P = ("Lt", canon_op(FR), HALF)

    def nearest(item, key, pmap, expect, good, what):
        b = impl("Nearest", item)
        try:
            T = table_of(b, pmap)
            if T.atoms != [P]:
                ctx.ob(rule, key, False, b.where(), "Nearest::%s decides on %s, expected only `fract((N−1)q) < 1/2`" % (
                    item, "; ".join("%s %s %s" % (show(a[1]), "<" if a[0] == "Lt" else "==", show(a[2])) for a in T.atoms)[:160] or "nothing"), what=what)
                return
            bad = [asg for asg in T.assignments() if not expect(T, T.at(asg), asg[0])]
            ctx.ob(rule, key, not bad, b.where(), good if not bad else "Nearest::%s is wrong when fract((N−1)q) < 1/2 is %s" % (item, bad[0][0]), what=what)
        except (NoTable, Unrecognised) as ex:
            ctx.ob(rule, key, False, b.where(), "Nearest::%s is not a decision table over `fract((N−1)q) < 1/2`: %s" % (item, ex), what=what)

    def is_unwrap_of(T, v, pi):
        v = ds(v)
        return isinstance(v, tuple) and v[0] == "call" and v[1] == "unwrap" and ds(v[3][0])[:2] == ("param", pi)
    nearest("needs_lower", "Nearest/needs_lower", qn, lambda T, v, lt: v is lt, "lower iff fract((N−1)q) < 0.5", "nearest neighbour chosen by the wrong threshold")
    nearest("needs_higher", "Nearest/needs_higher", qn, lambda T, v, lt: v is (not lt), "higher iff not fract((N−1)q) < 0.5 (= !needs_lower)", "nearest: lower/higher not complementary")
    nearest("interpolate", "Nearest/interpolate", {3: q, 4: n}, lambda T, v, lt: is_unwrap_of(T, v, 1 if lt else 2),
            "fract((N−1)q) < 0.5 ? lower : higher", "nearest returns the wrong neighbour")
    names = {1: lo, 2: hi, 3: q, 4: n}
    for s_, spec in (("Higher", hi), ("Lower", lo), ("Midpoint", ("div", ("add", lo, hi), ("num", 2))),
                     ("Linear", ("add", lo, ("mul", FR, ("sub", hi, lo))))):
        b = impl(s_, "interpolate")
        try:
            t = fn_term(prog, b, names)
            rec.equal("%s/interpolate" % s_, b.where(), _realify(t), _realify(spec), "strategy formula differs from its definition", "%s::interpolate" % s_)
        except Unrecognised as ex:
            unrec(ctx, rule, "%s/interpolate" % s_, b.where(), ex)
    rec.flush()
    # the bulk closure applies the strategy to the looked-up neighbours of the j-th q
    inner = prog.find("QuantileExt<A, S, D>>::quantiles_axis_mut::quantiles_axis_mut")
    lane = [c for c in prog.closures_of(inner) if any(callee_name(t) == "get_many_from_sorted_mut_unchecked" for _, t in c.calls())]
    ok = False
    detail = "lane closure not found"
    if len(lane) == 1:
        c0 = lane[0]
        # the per-q body: the lane closure itself (a `for` loop) or the closure of a for_each over the zipped (result, q) pairs
        cands = [c0] + [x for x in prog.bodies.values() if x.is_closure and x.key.startswith(c0.key + "::")]
        holders = [(g, bb, t) for g in cands for bb, t in g.calls() if callee_name(t) == "interpolate"]
        calls = [(bb, t) for (g, bb, t) in holders]
        c = holders[0][0] if len(holders) == 1 else c0
        if len(calls) == 1:
            bb, t = calls[0]
            a = [ds(x) for x in c.call_arg_exprs(bb)]

            def looked_up(e, which):
                # phi of Some(clone(index(index_map, &which(q, axis_len)))) / None
                found = False
                for x in walk(e):
                    pass
                return found
            qarg, larg = a[2], a[3]
            q_is_elem = any(isinstance(x, tuple) and x[0] == "call" and x[1] == "next" for x in walk(qarg)) or _is_iteration_item(prog, c, qarg)
            pb, le_ = up(prog, c, larg)
            le_ = ds(le_)
            len_ok = isinstance(le_, tuple) and le_[0] == "call" and le_[1] == "len_of" and ds(le_[3][0])[:2] == ("param", 1) and ds(le_[3][1])[:2] == ("param", 2)
            # the value is stored into the result element paired with that q
            stores = [(sbb, si, d) for (sbb, si, d) in c.stores()]
            st_ok = False
            for sbb, si, d in stores:
                base = ds(c.local_expr(d["l"], sbb, si))
                if any(isinstance(x, tuple) and x[0] == "call" and x[1] == "next" for x in walk(base)) or _is_iteration_item(prog, c, base):
                    st_ok = True
            # lookups use lower_index/higher_index of the same (q, axis_len)
            lk = {}
            nested = [c] + [x for x in prog.bodies.values() if x.is_closure and x.key.startswith(c.key + "::")]
            for g in nested:
                for cbb, ct in g.calls():
                    if callee_name(ct) in ("lower_index", "higher_index"):
                        aa = g.call_arg_exprs(cbb)
                        qa = ds(up(prog, g, aa[0])[1]) if g is not c else ds(aa[0])
                        la = up(prog, g, aa[1])
                        while la[0].is_closure and la[0] is not inner and isinstance(ds(la[1]), tuple) and ds(la[1])[0] == "upvar":
                            la = up(prog, la[0], la[1])
                        lk[callee_name(ct)] = (qa == qarg, ds(up(prog, la[0], la[1])[1]) == le_ if la[0].is_closure else ds(la[1]) == le_)
            # the strategy's first value argument comes from the look-up at lower_index, the second from the one at higher_index
            o0 = origin_calls(c, a[0], ("lower_index", "higher_index"))
            o1 = origin_calls(c, a[1], ("lower_index", "higher_index"))
            roles_ok = o0 == {"lower_index"} and o1 == {"higher_index"}
            ok = q_is_elem and len_ok and st_ok and lk.get("lower_index") == (True, True) and lk.get("higher_index") == (True, True)
            if ok and not roles_ok and (o0 or o1):
                ok = False
                lk = {"interpolate receives": "lower ← %s, higher ← %s" % (sorted(o0) or "?", sorted(o1) or "?")}
            if not ok and not lk and q_is_elem and len_ok and st_ok:
                pv = lane_uses_position_vector(prog, inner, c)
                if pv is not None:
                    ok = pv[0]
                    lk = {"via position vector": pv[1]}
            detail = "*result_j = I::interpolate(index_map[lower_index(q_j, axis_len)], index_map[higher_index(q_j, axis_len)], q_j, axis_len)" if ok else \
                "q is the zipped element=%s axis_len=len_of(data, axis)=%s stored into the paired result=%s lookups=%s" % (q_is_elem, len_ok, st_ok, lk)
    ctx.ob("R13", "quantiles_axis_mut/applies-strategy-to-neighbours", ok, inner.where(), detail, what="bulk quantile does not apply the strategy to the looked-up neighbours")
    from .rules_result import rule_filled_array_returned
    rule_filled_array_returned(ctx, prog.tracked(inner), "quantiles_axis_mut/result-returned-unchanged", rule="R30",
                               what="bulk quantile result altered after the lanes were filled")
    rule_quantiles_fill_value(ctx, prog)
    # result shape: raw_dim(data) with [axis.index()] := qs.len()
    tb = prog.tracked(inner)
    ok = False
    detail = "no store through index_mut(results_shape, axis.index())"
    for (sbb, si, d) in tb.stores():
        base = ds(tb.local_expr(d["l"], sbb, si))
        if isinstance(base, tuple) and base[0] == "call" and base[1] == "index_mut":
            recv, ix = ds(base[3][0]), ds(base[3][1])
            s = tb.blocks[sbb]["stmts"][si]
            val = ds(tb.rvalue_expr(s["rv"], sbb, si))
            recv_ok = isinstance(recv, tuple) and recv[0] == "call" and recv[1] == "raw_dim" and ds(recv[3][0])[:2] == ("param", 1)
            ix_ok = isinstance(ix, tuple) and ix[0] == "call" and ix[1] == "index" and ds(ix[3][0])[:2] == ("param", 2)
            val_ok = isinstance(val, tuple) and val[0] == "call" and val[1] == "len" and ds(val[3][0])[:2] == ("param", 3)
            ok = recv_ok and ix_ok and val_ok
            detail = "results_shape = data.raw_dim() with [axis.index()] = qs.len()" if ok else "shape store: raw_dim(data)=%s axis.index()=%s qs.len()=%s" % (recv_ok, ix_ok, val_ok)
    ctx.ob("R13", "quantiles_axis_mut/result-shape", ok, inner.where(), detail, what="bulk result does not have the input's shape with the axis resized to the number of quantiles")


def _realify(t):
    """value symbols of arbitrary sign"""
    if not isinstance(t, tuple):
        return t
    if t[0] == "sym":
        return ("real", t[1])
    return tuple(_realify(x) if isinstance(x, tuple) else x for x in t)


# ======================================================================================= C08 covariance / correlation (matrix form)

def rule_c08_structure(ctx, prog, rule="R19"):
    from .facts import inline_calls
    from .rules_zones import helper_filter
    cov = prog.method("CorrelationExt", "cov")
    tb = prog.tracked(inline_calls(prog, cov, helper_filter(prog)))      # private helpers of the module are read in place
    sv = success_values(tb)
    ok1 = len(sv) == 1
    ctx.ob("R13", "cov/single-success-value", ok1, cov.where(), "one success value" if ok1 else "%d success values" % len(sv),
           what="covariance computed in more than one way")
    AX1 = ("agg", "ndarray::Axis", "Axis", (("const", "usize", 1),), ("0",))

    def is_axis1(e):
        e = ds(e)
        return isinstance(e, tuple) and e[0] == "agg" and e[1] == "ndarray::Axis" and ds(e[3][0]) == ("const", "usize", 1)

    def nobs(e):
        e = unwrap_try(e)
        for _ in range(3):
            if isinstance(e, tuple) and e[0] == "call" and e[1] in ("from_usize", "unwrap", "expect") and e[3]:
                e = unwrap_try(e[3][0])
        if isinstance(e, tuple) and e[0] == "call" and e[1] == "ncols" and len(e[3]) == 1 and ds(e[3][0])[:2] == ("param", 1):
            return True       # ncols() of the 2-D receiver is len_of(Axis(1))
        return isinstance(e, tuple) and e[0] == "call" and e[1] == "len_of" and ds(e[3][0])[:2] == ("param", 1) and is_axis1(e[3][1])
    if ok1:
        v = ds(sv[0][1])
        centred = gram = denom = False
        detail = "success value `%s`" % fmt(v)[:160]
        if isinstance(v, tuple) and v[0] == "mut" and len(v) == 3 and v[2] == 0 and isinstance(v[1], tuple) and v[1][0] == "call" \
                and v[1][1] == "mapv_inplace":
            v = ds(v[1])          # the array after `m.mapv_inplace(f)` is `m.mapv_into(f)`
        if isinstance(v, tuple) and v[0] == "call" and v[1] in ("mapv_into", "mapv", "map", "mapv_inplace") and len(v[3]) == 2:
            m = ds(v[3][0])
            cb, ups = closure_of(prog, v[3][1])
            if cb is not None:
                ret, _ = closure_terms(prog, cb, {2: ("sym", "x")}, upvar_leaf=lambda e: ("sym", "^dof"))
                dofe = ds(ups[0]) if ups else None
                denom = ret == ("div", ("sym", "x"), ("sym", "^dof")) and isinstance(dofe, tuple) and dofe[0] == "call" and dofe[1] == "sub" \
                    and nobs(dofe[3][0]) and ds(dofe[3][1])[:2] == ("param", 2)
            if isinstance(m, tuple) and m[0] == "call" and m[1] == "dot" and len(m[3]) == 2:
                d1, d2 = ds(m[3][0]), ds(m[3][1])
                if isinstance(d2, tuple) and d2[0] == "call" and d2[1] in ("t", "reversed_axes") and ds(d2[3][0]) == d1:
                    gram = True
                    if isinstance(d1, tuple) and d1[0] == "call" and d1[1] == "sub" and ds(d1[3][0])[:2] == ("param", 1):
                        mean = ds(d1[3][1])
                        if isinstance(mean, tuple) and mean[0] == "call" and mean[1] == "insert_axis" and is_axis1(mean[3][1]):
                            mm = unwrap_try(mean[3][0])
                            centred = isinstance(mm, tuple) and mm[0] == "call" and mm[1] == "mean_axis" and ds(mm[3][0])[:2] == ("param", 1) and is_axis1(mm[3][1])
        ctx.ob(rule, "cov/centred", centred, cov.where(), "D = self − mean_axis(self, Axis(1)) broadcast along the observation axis" if centred else
               "the matrix that is multiplied is not `self − mean over observations`: " + detail, what="covariance not centred on the variable means")
        ctx.ob(rule, "cov/gram", gram, cov.where(), "D·Dᵀ with the same D on both sides (entry (i,j) = Σ_k D_ik·D_jk; symmetric by construction)" if gram else
               "not `D.dot(&D.t())` of one centred matrix: " + detail, what="covariance is not the Gram matrix of the centred rows")
        ctx.ob(rule, "cov/denominator", denom, cov.where(), "every entry divided by (n_observations − ddof), n_observations = len_of(Axis(1))" if denom else
               "entries are not divided by (len_of(self, Axis(1)) − ddof)", what="covariance denominator is not n − ddof")
    # ddof precondition: cov never panics for a ddof below the number of observations (C08 quantifies over those only; what
    # happens at ddof >= n is outside the property)
    from .rules_result import rule_guard_table

    def cov_leaf(s_):
        def leaf(e):
            if isinstance(e, tuple) and e[:2] == ("param", 2):
                return s_
            if isinstance(e, tuple) and e[0] == "call" and e[1] == "len_of" and len(e[3]) == 2 and ds(e[3][0])[:2] == ("param", 1) and is_axis1(e[3][1]):
                return 5
            if isinstance(e, tuple) and e[0] == "call" and e[1] == "ncols" and len(e[3]) == 1 and ds(e[3][0])[:2] == ("param", 1):
                return 5
            return None
        return leaf
    rule_guard_table(ctx, tb, "cov/ddof-guard", involves=lambda e: isinstance(e, tuple) and e[:2] == ("param", 2), leaf_for=cov_leaf,
                     samples=[0, 1, 4, 4.5, 5, 6], expect_diverge=lambda s_: False if s_ < 5 else None, describe=lambda s_: "ddof = %s with 5 observations" % s_,
                     rule=rule, what="cov rejects a valid ddof or divides by n − ddof ≤ 0")
    pc = prog.method("CorrelationExt", "pearson_correlation")
    tp = prog.tracked(inline_calls(prog, pc, helper_filter(prog)))
    sv = success_values(tp)
    ok = len(sv) == 1
    detail = "%d success values" % len(sv)
    if ok:
        v = ds(sv[0][1])
        ok = False
        detail = "success value `%s`" % fmt(v)[:160]
        if isinstance(v, tuple) and v[0] == "call" and v[1] == "div" and len(v[3]) == 2:
            c = unwrap_try(v[3][0])
            s = ds(v[3][1])
            cov_ok = isinstance(c, tuple) and c[0] == "call" and c[1] == "cov" and ds(c[3][0])[:2] == ("param", 1)
            dd = ds(c[3][1]) if cov_ok else None
            sd_ok = False
            if isinstance(s, tuple) and s[0] == "call" and s[1] == "dot":
                s1, s2 = ds(s[3][0]), ds(s[3][1])
                if isinstance(s2, tuple) and s2[0] == "call" and s2[1] == "t" and ds(s2[3][0]) == s1 and s1[0] == "call" and s1[1] == "insert_axis" and is_axis1(s1[3][1]):
                    sa = ds(s1[3][0])
                    sd_ok = sa[0] == "call" and sa[1] == "std_axis" and ds(sa[3][0])[:2] == ("param", 1) and is_axis1(sa[3][1]) and ds(sa[3][2]) == dd
            ok = cov_ok and sd_ok
            detail = "cov(ddof₀) / (σ·σᵀ) with σ = std_axis(self, Axis(1), ddof₀) – the same ddof₀ value in both" if ok else \
                "cov operand ok=%s, σσᵀ with the same ddof ok=%s" % (cov_ok, sd_ok)
    ctx.ob(rule, "pearson_correlation/formula", ok, pc.where(), detail, what="correlation is not cov / (σ_i σ_j) with one ddof")
