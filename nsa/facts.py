"""Engine A glue + shared services of Engine B (see /verif/DESIGN.md §2.1/2.2).

extract()  : runs the nsfacts rustc_private driver on the *current* working tree of the
             repository (never cached across runs), fails closed when the fact file is
             missing or implausible.
Program    : indexed view of a fact file (bodies, ADTs, impls, closures, call graph).
Body       : CFG without unwind edges, constant-branch pruning, dominators,
             post-dominators, reaching definitions and a symbolic value ("expression")
             for every operand at every program point.

Nothing in here executes the analysed crate.
"""
import fcntl
import hashlib
import json
import os
import shutil
import subprocess
import sys
import tempfile
import time

VERIF = os.path.dirname(os.path.dirname(os.path.abspath(__file__)))
CACHE = os.path.join(VERIF, ".cache")
DRIVER = os.path.join(VERIF, "driver", "target", "release", "nsfacts")
BODY_FLOOR = 380  # counted on the pinned tree: 404 bodies


class ExtractError(Exception):
    def __init__(self, msg, compile_error=False):
        super().__init__(msg)
        self.compile_error = compile_error


def repo_path():
    # registered commands always analyse /repo; the corpus runner passes a scratch copy
    return os.environ.get("NSA_REPO", "/repo")


def tree_hash(repo, with_lock=True):
    h = hashlib.sha256()
    paths = []
    for root, dirs, files in os.walk(os.path.join(repo, "src")):
        dirs.sort()
        for f in sorted(files):
            paths.append(os.path.join(root, f))
    for extra in ("Cargo.toml", "Cargo.lock", "build.rs"):
        if extra == "Cargo.lock" and not with_lock:
            continue
        p = os.path.join(repo, extra)
        if os.path.exists(p):
            paths.append(p)
    for p in paths:
        h.update(os.path.relpath(p, repo).encode())
        with open(p, "rb") as fh:
            h.update(fh.read())
    return h.hexdigest()


def nightly_sysroot():
    return subprocess.check_output(["rustc", "+nightly", "--print", "sysroot"], text=True).strip()


def ensure_driver():
    if not os.path.exists(DRIVER):
        env = dict(os.environ, CARGO_NET_OFFLINE="true")
        subprocess.check_call(
            ["cargo", "build", "--release", "--offline"],
            cwd=os.path.join(VERIF, "driver"), env=env,
            stdout=subprocess.DEVNULL, stderr=subprocess.DEVNULL)


def extract(profile="dev", repo=None, crate="ndarray_stats", manifest_dir=None, floor=BODY_FLOOR):
    """Type-check `repo` with the nsfacts driver injected and return the fact dict.

    profile: 'dev' (debug-assertions, overflow checks) or 'rel' (--release).
    The target dir under /verif/.cache only caches *dependency* metadata; the analysed crate's
    fingerprint is deleted first so that cargo cannot skip the driver, and the fact file is
    checked to exist, to name the crate and to carry the hash of the tree read just now.
    """
    repo = repo or repo_path()
    manifest_dir = manifest_dir or repo
    ensure_driver()
    os.makedirs(CACHE, exist_ok=True)
    t0 = time.time()
    with_lock = crate == "ndarray_stats"     # cargo may complete the lock file of the fixtures crate itself
    src_hash = tree_hash(manifest_dir, with_lock)
    lock = open(os.path.join(CACHE, "lock"), "w")
    fcntl.flock(lock, fcntl.LOCK_EX)
    try:
        target = os.path.join(CACHE, "target")
        prof_dir = "release" if profile == "rel" else "debug"
        fp = os.path.join(target, prof_dir, ".fingerprint")
        pkg = crate.replace("_", "-")
        if os.path.isdir(fp):
            for d in os.listdir(fp):
                if d.startswith(pkg + "-") or d.startswith(crate + "-"):
                    shutil.rmtree(os.path.join(fp, d), ignore_errors=True)
        out = os.path.join(CACHE, "facts-%s-%d.json" % (profile, os.getpid()))
        if os.path.exists(out):
            os.remove(out)
        env = dict(os.environ)
        env.update({
            "LD_LIBRARY_PATH": os.path.join(nightly_sysroot(), "lib"),
            "RUSTFLAGS": "-Zmir-opt-level=0 -Awarnings",
            "RUSTC_WORKSPACE_WRAPPER": DRIVER,
            "NSFACTS_OUT": out,
            "NSFACTS_CRATE": crate,
            "CARGO_TARGET_DIR": target,
            "CARGO_NET_OFFLINE": "true",
        })
        env.pop("RUSTC_WRAPPER", None)
        cmd = ["cargo", "+nightly", "check", "--offline", "--lib", "--quiet"]
        if profile == "rel":
            cmd.append("--release")
        p = subprocess.run(cmd, cwd=manifest_dir, env=env, stdout=subprocess.PIPE,
                           stderr=subprocess.PIPE, text=True)
        if p.returncode != 0:
            raise ExtractError("the analysed crate does not compile (profile %s):\n%s"
                               % (profile, p.stderr[-4000:]), compile_error=True)
        if not os.path.exists(out):
            raise ExtractError("fact file missing after extraction (driver skipped?) profile=%s" % profile)
        with open(out) as fh:
            facts = json.load(fh)
        os.remove(out)
    finally:
        fcntl.flock(lock, fcntl.LOCK_UN)
        lock.close()
    if facts.get("crate") != crate:
        raise ExtractError("fact file names crate %r, expected %r" % (facts.get("crate"), crate))
    if len(facts["bodies"]) < floor:
        raise ExtractError("anchor missing: only %d MIR bodies extracted (floor %d)"
                           % (len(facts["bodies"]), floor))
    if tree_hash(manifest_dir, with_lock) != src_hash:
        raise ExtractError("source tree changed during extraction")
    facts["_meta"] = {"profile": profile, "repo": manifest_dir, "tree_hash": src_hash,
                      "extract_s": round(time.time() - t0, 2)}
    return facts


# ---------------------------------------------------------------------------------------------
# expressions: nested tuples, first element is the operator
#   ('param', i, name) ('upvar', i, name) ('const', ty, value) ('fn', path) ('closure', key)
#   ('call', name, path, args_tuple, site)    site = (bb) of the call in its body
#   ('binop', op, a, b) ('unop', op, a) ('cast', kind, a, ty)
#   ('field', base, name) ('index', base, idx) ('downcast', base, variant) ('deref', a) ('ref', a, mut)
#   ('agg', kind, variant, fields_tuple) ('discr', a) ('phi', local, name, defs_tuple) ('unknown', text)
# 'ref'/'deref' are kept (rules use strip() to see through them).


def strip(e):
    """see through borrows, derefs and by-value copies: the *object* an expression denotes"""
    while isinstance(e, tuple) and e and e[0] in ("ref", "deref"):
        e = e[1]
    return e


def ds(e):
    """deep strip: remove borrows/derefs at every level (object identity, not pointer-ness)"""
    if not isinstance(e, tuple) or not e:
        return e
    op = e[0]
    if op in ("ref", "deref"):
        return ds(e[1])
    if op == "call":
        return ("call", e[1], e[2], tuple(ds(a) for a in e[3]), e[4])
    if op == "agg":
        return e[:3] + (tuple(ds(a) for a in e[3]),) + e[4:]
    if op == "binop":
        return ("binop", e[1], ds(e[2]), ds(e[3]))
    if op in ("unop", "cast"):
        return (op, e[1], ds(e[2])) + e[3:]
    if op in ("field", "downcast", "discr"):
        return (op, ds(e[1])) + e[2:]
    if op == "index":
        return ("index", ds(e[1]), ds(e[2]))
    if op == "mut":
        return ("mut", ds(e[1]), e[2])
    return e


def is_call(e, *names):
    e = strip(e)
    return isinstance(e, tuple) and e[0] == "call" and (not names or e[1] in names)


def call_args(e):
    return strip(e)[3]


def walk(e, seen=None):
    """all sub-expressions (pre-order); shared sub-DAGs visited once"""
    if seen is None:
        seen = set()
    stack = [e]
    while stack:
        x = stack.pop()
        if not isinstance(x, tuple):
            continue
        if id(x) in seen:
            continue
        seen.add(id(x))
        yield x
        op = x[0] if x else None
        if op == "call":
            stack.extend(x[3])
        elif op == "agg":
            stack.extend(x[3])
        elif op == "phi":
            pass
        elif op in ("binop",):
            stack.extend((x[2], x[3]))
        elif op in ("unop", "cast"):
            stack.append(x[2])
        elif op == "mut":
            stack.append(x[1])
        elif op in ("field", "index", "downcast", "deref", "ref", "discr"):
            stack.append(x[1])
            if op == "index":
                stack.append(x[2])


def fmt(e, depth=0):
    if depth > 8:
        return "…"
    if not isinstance(e, tuple) or not e:
        return repr(e)
    op = e[0]
    if op == "param":
        return (e[2] if len(e) > 2 else None) or "arg%d" % e[1]
    if op == "upvar":
        return "^" + (e[2] or str(e[1]))
    if op == "const":
        return str(e[2])
    if op == "fn":
        return "fn " + e[1]
    if op == "closure":
        return "closure " + e[1].rsplit("::", 1)[-1]
    if op == "call":
        return "%s(%s)" % (e[1], ", ".join(fmt(a, depth + 1) for a in e[3]))
    if op == "binop":
        return "(%s %s %s)" % (fmt(e[2], depth + 1), e[1], fmt(e[3], depth + 1))
    if op == "unop":
        return "%s(%s)" % (e[1], fmt(e[2], depth + 1))
    if op == "cast":
        return "(%s as %s)" % (fmt(e[2], depth + 1), e[3])
    if op == "field":
        return "%s.%s" % (fmt(e[1], depth + 1), e[2])
    if op == "index":
        return "%s[%s]" % (fmt(e[1], depth + 1), fmt(e[2], depth + 1))
    if op == "downcast":
        return "%s as %s" % (fmt(e[1], depth + 1), e[2])
    if op == "deref":
        return "*" + fmt(e[1], depth + 1)
    if op == "ref":
        return ("&mut " if e[2] else "&") + fmt(e[1], depth + 1)
    if op == "agg":
        return "%s::%s{%s}" % (e[1], e[2], ", ".join(fmt(a, depth + 1) for a in e[3]))
    if op == "discr":
        return "discr(%s)" % fmt(e[1], depth + 1)
    if op == "phi":
        return "φ%s" % (e[2] or "_%d" % e[1])
    if op == "mut":
        return "%s⟦arg%d'⟧" % (fmt(e[1], depth + 1), e[2])
    return str(e)


class Body:
    def __init__(self, prog, raw, promoted_of=None, track_mut=False):
        self.prog = prog
        self.raw = raw
        self.track_mut = track_mut   # treat `f(&mut v, ..)` as a (killing) definition of local v (Engine D)
        self.key = raw.get("key")
        self.kind = raw.get("kind")
        self.name = raw.get("name")
        self.locals = raw["locals"]
        self.blocks = raw["blocks"]
        self.arg_count = raw["arg_count"]
        self.file = raw.get("sp", {}).get("file")
        self.line = raw.get("sp", {}).get("line")
        self.is_closure = self.kind == "Closure"
        self.root = raw.get("root")
        self.parent = raw.get("parent")
        self.promoted = [Body(prog, dict(p, key="%s::promoted[%d]" % (self.key, i), kind="Promoted"), self)
                         for i, p in enumerate(raw.get("promoted", []))] if promoted_of is None else []
        self._succ = None
        self._pruned = None
        self._dom = None
        self._pdom = None
        self._defs = None
        self._rd_in = None
        self._expr_memo = {}
        self.promoted_of = promoted_of
        self._upvar_names = {}
        for u in raw.get("upvar_names", []):
            pl = u["pl"]
            if pl["l"] == 1:
                for pe in pl["p"]:
                    if isinstance(pe, dict) and "field" in pe:
                        self._upvar_names[pe["field"]] = u["name"]
                        break

    # ---- basic helpers
    def where(self, bb=None, stmt=None):
        if bb is None:
            return "%s:%s" % (self.file, self.line)
        b = self.blocks[bb]
        sp = (b["stmts"][stmt]["sp"] if stmt is not None and stmt != "term" else b["term"]["sp"])
        if sp.get("exp") and not sp["exp"].get("local") and sp.get("call_file"):
            return "%s:%s" % (sp["call_file"], sp.get("call_line"))
        return "%s:%s" % (sp["file"], sp["line"])

    def local_ty(self, l):
        return self.locals[l]["ty"]

    def local_flags(self, l):
        return self.locals[l]["flags"]

    def local_name(self, l):
        return self.locals[l].get("name")

    def term(self, bb):
        return self.blocks[bb]["term"]

    def live_blocks(self):
        """blocks reachable from entry over non-unwind edges after constant-branch pruning"""
        self._build_cfg()
        return self._reach

    def succ(self, bb):
        self._build_cfg()
        return self._succ[bb]

    def preds(self, bb):
        self._build_cfg()
        return self._pred[bb]

    def _const_bool_of_operand(self, op):
        if op["k"] == "const":
            c = op["c"]
            if "bool" in c:
                return c["bool"]
            if "int" in c:
                return c["int"]
            return None
        pl = op["pl"]
        if pl["p"]:
            return None
        defs = self.defs_of(pl["l"])
        if len(defs) != 1:
            return None  # drop flags etc. are multiply assigned: never pruned
        bb, idx = defs[0]
        if idx == "term" or bb == "entry" or isinstance(idx, tuple):
            return None
        rv = self.blocks[bb]["stmts"][idx]["rv"]
        if rv["k"] == "use" and rv["a"]["k"] == "const":
            c = rv["a"]["c"]
            if "bool" in c:
                return c["bool"]
            if "int" in c:
                return c["int"]
        return None

    def _raw_succ(self, bb, prune=True):
        t = self.blocks[bb]["term"]
        k = t["k"]
        if k == "goto":
            return [t["target"]]
        if k == "switch":
            if prune:
                v = self._const_bool_of_operand(t["discr"])
                if v is not None:
                    v = int(v)
                    for val, tgt in t["arms"]:
                        if val == v:
                            return [tgt]
                    return [t["otherwise"]]
            out = [a[1] for a in t["arms"]] + [t["otherwise"]]
            res = []
            for x in out:
                if x not in res:
                    res.append(x)
            return res
        if k in ("call", "assert", "drop"):
            return [t["target"]] if t.get("target") is not None else []
        return []

    def _build_cfg(self):
        if self._succ is not None:
            return
        n = len(self.blocks)
        self._succ = [[] for _ in range(n)]
        self._pred = [[] for _ in range(n)]
        reach = []
        seen = set([0])
        stack = [0]
        while stack:
            b = stack.pop()
            reach.append(b)
            ss = [s for s in self._raw_succ(b) if not self.blocks[s]["cleanup"]]
            self._succ[b] = ss
            for s in ss:
                self._pred[s].append(b)
                if s not in seen:
                    seen.add(s)
                    stack.append(s)
        self._reach = sorted(reach)

    # ---- definitions
    def _collect_defs(self):
        if self._defs is not None:
            return
        defs = {}
        stores = []  # writes through a pointer / to a projection
        for l in range(1, self.arg_count + 1):
            defs.setdefault(l, []).append(("entry", l))
        for bi, b in enumerate(self.blocks):
            if b["cleanup"]:
                continue
            for si, s in enumerate(b["stmts"]):
                if s["k"] in ("assign", "setdiscr"):
                    d = s["dst"]
                    if not d["p"]:
                        defs.setdefault(d["l"], []).append((bi, si))
                    else:
                        stores.append((bi, si, d))
                        if "deref" not in [p for p in d["p"] if isinstance(p, str)]:
                            # partial definition of the local itself (field assign)
                            defs.setdefault(d["l"], []).append((bi, si))
            t = b["term"]
            if t["k"] == "call":
                d = t["dst"]
                if not d["p"]:
                    defs.setdefault(d["l"], []).append((bi, "term"))
                else:
                    stores.append((bi, "term", d))
                if self.track_mut:
                    for ai, v in self._mut_borrowed_args(bi):
                        defs.setdefault(v, []).append((bi, ("mut", ai)))
        self._defs = defs
        self._stores = stores

    def _mut_borrow_map(self):
        """temp local → local it mutably borrows as a whole (`_t = &mut _v`, or a reborrow `&mut *_t2` of such a temp);
        only temps assigned exactly once"""
        if getattr(self, "_mbm", None) is not None:
            return self._mbm
        count = {}
        src = {}
        for b in self.blocks:
            if b["cleanup"]:
                continue
            for s in b["stmts"]:
                if s["k"] == "assign" and not s["dst"]["p"]:
                    l = s["dst"]["l"]
                    count[l] = count.get(l, 0) + 1
                    rv = s["rv"]
                    if rv["k"] in ("ref", "rawptr") and rv["mut"]:
                        src[l] = rv["pl"]
            t = b["term"]
            if t["k"] == "call" and not t["dst"]["p"]:
                count[t["dst"]["l"]] = count.get(t["dst"]["l"], 0) + 1
        m = {}
        for l, pl in src.items():
            if count.get(l) != 1:
                continue
            cur = pl
            for _ in range(4):
                if not cur["p"]:
                    m[l] = cur["l"]
                    break
                if cur["p"] == ["deref"] and cur["l"] in src and count.get(cur["l"]) == 1:
                    cur = src[cur["l"]]
                    continue
                break
        self._mbm = m
        return m

    def _mut_borrowed_args(self, bb):
        """[(arg index, local v)] for call arguments that are `&mut v` of a whole local"""
        t = self.blocks[bb]["term"]
        out = []
        m = self._mut_borrow_map()
        for ai, a in enumerate(t["args"]):
            if a["k"] not in ("move", "copy") or a["pl"]["p"]:
                continue
            v = m.get(a["pl"]["l"])
            if v is not None and v > self.arg_count or (v is not None and v >= 1):
                out.append((ai, v))
        return out

    def defs_of(self, l):
        self._collect_defs()
        return self._defs.get(l, [])

    def stores(self):
        self._collect_defs()
        return self._stores

    def _reaching(self):
        if self._rd_in is not None:
            return
        self._collect_defs()
        self._build_cfg()
        # gen/kill per block: last def of each local in the block
        blocks = self._reach
        gen = {}
        for b in blocks:
            g = {}
            blk = self.blocks[b]
            for si, s in enumerate(blk["stmts"]):
                if s["k"] in ("assign", "setdiscr") :
                    d = s["dst"]
                    if not d["p"]:
                        g[d["l"]] = {(b, si)}
                    elif "deref" not in [p for p in d["p"] if isinstance(p, str)]:
                        g[d["l"]] = set(g.get(d["l"], set())) | {(b, si)}  # partial: adds
                        g[d["l"]] = g[d["l"]] | {("partial", b)}
            t = blk["term"]
            if t["k"] == "call" and not t["dst"]["p"]:
                g[t["dst"]["l"]] = {(b, "term")}
            if t["k"] == "call" and self.track_mut:
                for ai, v in self._mut_borrowed_args(b):
                    g[v] = {(b, ("mut", ai))}
            gen[b] = g
        rd_in = {b: {} for b in blocks}
        entry = {l: {("entry", l)} for l in range(1, self.arg_count + 1)}
        rd_in[0] = entry
        changed = True
        out = {}

        def transfer(b):
            o = dict(rd_in[b])
            for l, ds in gen[b].items():
                if ("partial", b) in ds:
                    o[l] = set(o.get(l, set())) | {d for d in ds if d[0] != "partial"}
                else:
                    o[l] = ds
            return o

        work = list(blocks)
        while work:
            b = work.pop(0)
            o = transfer(b)
            out[b] = o
            for s in self._succ[b]:
                tgt = rd_in[s]
                ch = False
                for l, ds in o.items():
                    cur = tgt.get(l)
                    if cur is None:
                        tgt[l] = set(ds)
                        ch = True
                    elif not ds <= cur:
                        tgt[l] = cur | ds
                        ch = True
                if ch and s not in work:
                    work.append(s)
        self._rd_in = rd_in

    def reaching_defs(self, l, bb, idx):
        """definitions of local l that reach the point just before statement idx of block bb
        (idx == 'term' → before the terminator)"""
        self._reaching()
        blk = self.blocks[bb]
        n = len(blk["stmts"]) if idx == "term" else idx
        cur = None
        partial = []
        for si in range(n - 1, -1, -1):
            s = blk["stmts"][si]
            if s["k"] in ("assign", "setdiscr") and s["dst"]["l"] == l:
                d = s["dst"]
                if not d["p"]:
                    cur = {(bb, si)}
                    break
                elif "deref" not in [p for p in d["p"] if isinstance(p, str)]:
                    partial.append((bb, si))
        if cur is None:
            cur = set(self._rd_in.get(bb, {}).get(l, set()))
        return set(cur) | set(partial)

    # ---- dominators
    def dominators(self):
        if self._dom is not None:
            return self._dom
        self._build_cfg()
        blocks = self._reach
        allb = set(blocks)
        dom = {b: set(allb) for b in blocks}
        dom[0] = {0}
        changed = True
        while changed:
            changed = False
            for b in blocks:
                if b == 0:
                    continue
                ps = [dom[p] for p in self._pred[b] if p in dom]
                new = set.intersection(*ps) if ps else set()
                new = new | {b}
                if new != dom[b]:
                    dom[b] = new
                    changed = True
        self._dom = dom
        return dom

    def dominates(self, a, b):
        return a in self.dominators().get(b, set())

    def exits(self):
        return [b for b in self.live_blocks() if self.blocks[b]["term"]["k"] == "return"]

    def postdominators(self):
        """post-dominance w.r.t. normal `return` exits (diverging blocks post-dominate nothing)"""
        if self._pdom is not None:
            return self._pdom
        self._build_cfg()
        blocks = self._reach
        exits = self.exits()
        allb = set(blocks)
        pdom = {b: set(allb) for b in blocks}
        for e in exits:
            pdom[e] = {e}
        changed = True
        while changed:
            changed = False
            for b in blocks:
                if b in exits:
                    continue
                ss = [pdom[s] for s in self._succ[b]]
                if not ss:
                    new = set(allb)  # diverges: vacuous
                else:
                    new = set.intersection(*ss) | {b}
                if new != pdom[b]:
                    pdom[b] = new
                    changed = True
        self._pdom = pdom
        return pdom

    def reachable_from(self, bb, avoid=()):
        self._build_cfg()
        seen = set()
        stack = [bb]
        while stack:
            x = stack.pop()
            if x in seen or x in avoid:
                continue
            seen.add(x)
            stack.extend(self._succ[x])
        return seen

    def can_reach_return(self, bb, avoid=()):
        r = self.reachable_from(bb, avoid)
        return any(self.blocks[x]["term"]["k"] == "return" for x in r)

    # ---- expressions
    def const_expr(self, c):
        if "fn" in c:
            return ("fn", c["fn"], tuple(c.get("fn_args", [])))
        if "promoted" in c:
            pb = self.promoted[c["promoted"]] if c["promoted"] < len(self.promoted) else None
            if pb is not None:
                return pb.return_expr()
            return ("unknown", "promoted")
        for k in ("int", "bool", "float", "uint_str"):
            if k in c:
                v = c[k]
                if k == "float":
                    try:
                        v = float(v)
                    except ValueError:
                        pass
                return ("const", c["ty"], v)
        if c["ty"].startswith("{closure@") or "closure" in c["ty"]:
            return ("const", c["ty"], c.get("text"))
        if "uneval" in c:
            # a named constant of the crate with a straight-line initialiser: the value it names
            cb = self.prog.const_body(c["uneval"]) if hasattr(self.prog, "const_body") else None
            if cb is not None:
                try:
                    return cb.return_expr()
                except Exception:
                    pass
        return ("const", c["ty"], c.get("text"))

    def operand_expr(self, op, bb, idx):
        if op["k"] == "const":
            return self.const_expr(op["c"])
        if op["k"] in ("copy", "move"):
            return self.place_expr(op["pl"], bb, idx)
        return ("unknown", op.get("text", "?"))

    def place_expr(self, pl, bb, idx):
        base = self.local_expr(pl["l"], bb, idx)
        return self._project(base, pl["p"], bb, idx)

    def _project(self, base, proj, bb, idx):
        e = base
        for pe in proj:
            if pe == "deref":
                if isinstance(e, tuple) and e[0] == "ref":
                    e = e[1]
                else:
                    e = ("deref", e)
            elif isinstance(pe, dict) and "field" in pe:
                # closure environment
                se0 = strip(e)
                if self.is_closure and isinstance(se0, tuple) and se0[0] == "param" and se0[1] == 1:
                    e = ("upvar", pe["field"], self._upvar_names.get(pe["field"]))
                    continue
                se = e
                if isinstance(se, tuple) and se[0] == "agg" and se[1] != "closure":
                    # field of a known aggregate
                    names = se[4] if len(se) > 4 else ()
                    i = pe["field"]
                    if i < len(se[3]):
                        e = se[3][i]
                        continue
                e = ("field", e, pe["name"])
            elif isinstance(pe, dict) and "index" in pe:
                e = ("index", e, self.local_expr(pe["index"], bb, idx))
            elif isinstance(pe, dict) and "downcast" in pe:
                e = ("downcast", e, pe["downcast"])
            elif isinstance(pe, dict) and "constindex" in pe:
                e = ("index", e, ("const", "usize", pe["constindex"]))
            else:
                e = ("field", e, str(pe))
        return e

    def local_expr(self, l, bb, idx):
        rds = self.reaching_defs(l, bb, idx)
        if len(rds) == 1:
            (d,) = rds
            return self.def_expr(l, d)
        if not rds:
            return ("unknown", "undef _%d" % l)
        return ("phi", l, self.local_name(l), tuple(sorted(rds, key=str)))

    def def_expr(self, l, d):
        key = (l, d)
        if key in self._expr_memo:
            return self._expr_memo[key]
        self._expr_memo[key] = ("unknown", "cycle")
        if d[0] == "entry":
            e = ("param", l, self.local_name(l))
        else:
            bb, idx = d
            if idx == "term":
                e = self.call_expr(bb)
            elif isinstance(idx, tuple) and idx[0] == "mut":
                e = ("mut", self.call_expr(bb), idx[1])
            else:
                s = self.blocks[bb]["stmts"][idx]
                if s["k"] == "setdiscr" or s["dst"]["p"]:
                    e = ("phi", l, self.local_name(l), (d,))
                else:
                    e = self.rvalue_expr(s["rv"], bb, idx)
        self._expr_memo[key] = e
        return e

    def call_expr(self, bb):
        t = self.blocks[bb]["term"]
        key = ("callsite", bb)
        if key in self._expr_memo:
            return self._expr_memo[key]
        args = tuple(self.operand_expr(a, bb, "term") for a in t["args"])
        c = t["callee"]
        site = bb if self.promoted_of is None else ("promoted", self.promoted_of.promoted_index(self), bb)
        if "path" in c:
            e = ("call", c["name"], c["path"], args, site)
            if c["name"] == "size" and c["path"] == "ndarray::Dimension::size" and len(args) == 1:
                # x.raw_dim().size() is, by ndarray's definition of len(), x.len(): one spelling for the element count
                a0 = strip(args[0])
                if isinstance(a0, tuple) and a0[0] == "call" and a0[1] == "raw_dim" and "ndarray::" in a0[2] and len(a0[3]) == 1:
                    e = ("call", "len", "ndarray::impl_methods::<impl ndarray::ArrayBase<S, D>>::len", a0[3], site)
        elif "closure" in c:
            e = ("call", "<closure>", c["closure"], args, site)
        else:
            f = self.place_expr(c["pl"], bb, "term") if "pl" in c else ("unknown", "indirect")
            e = ("call", "<indirect>", fmt(f), args, site)
        self._expr_memo[key] = e
        return e

    def promoted_index(self, pb):
        for i, x in enumerate(self.promoted):
            if x is pb:
                return i
        return -1

    def site_term(self, site):
        """terminator of the call a ('call', …, site) expression was built from"""
        if isinstance(site, int):
            return self.blocks[site]["term"]
        if isinstance(site, tuple) and site and site[0] == "promoted":
            return self.promoted[site[1]].blocks[site[2]]["term"]
        return None

    def rvalue_expr(self, rv, bb, idx):
        k = rv["k"]
        if k == "use":
            return self.operand_expr(rv["a"], bb, idx)
        if k == "ref":
            return ("ref", self.place_expr(rv["pl"], bb, idx), rv["mut"])
        if k == "rawptr":
            return ("ref", self.place_expr(rv["pl"], bb, idx), rv["mut"])
        if k == "binop":
            return ("binop", rv["op"], self.operand_expr(rv["a"], bb, idx), self.operand_expr(rv["b"], bb, idx))
        if k == "unop":
            return ("unop", rv["op"], self.operand_expr(rv["a"], bb, idx))
        if k == "cast":
            return ("cast", rv["kind"], self.operand_expr(rv["a"], bb, idx), rv["ty"])
        if k == "agg":
            fields = tuple(self.operand_expr(f, bb, idx) for f in rv["fields"])
            if "adt" in rv:
                return ("agg", rv["adt"], rv["variant"], fields, tuple(rv.get("field_names", [])))
            if "closure" in rv:
                return ("agg", "closure", rv["closure"], fields)
            if rv.get("tuple"):
                return ("agg", "tuple", "", fields)
            if rv.get("array"):
                return ("agg", "array", "", fields)
            return ("agg", "other", rv.get("other", ""), fields)
        if k == "discr":
            return ("discr", self.place_expr(rv["pl"], bb, idx))
        if k == "repeat":
            return ("agg", "repeat", rv["n"], (self.operand_expr(rv["a"], bb, idx),))
        return ("unknown", rv.get("text", k))

    def return_expr(self):
        """expression of the returned value if it is unique (single return-place definition
        reaching the exit), else a phi"""
        ex = self.exits()
        if not ex:
            return ("unknown", "no return")
        return self.local_expr(0, ex[0], "term")

    # ---- iteration helpers
    def calls(self, live_only=True):
        """[(bb, term)] for every call terminator"""
        blocks = self.live_blocks() if live_only else range(len(self.blocks))
        for b in blocks:
            t = self.blocks[b]["term"]
            if t["k"] == "call":
                yield b, t

    def call_arg_exprs(self, bb):
        t = self.blocks[bb]["term"]
        return [self.operand_expr(a, bb, "term") for a in t["args"]]

    def switch_discr_expr(self, bb):
        t = self.blocks[bb]["term"]
        return self.operand_expr(t["discr"], bb, "term")

    def assigns(self):
        for b in self.live_blocks():
            for si, s in enumerate(self.blocks[b]["stmts"]):
                if s["k"] == "assign":
                    yield b, si, s


def callee_name(t):
    c = t["callee"]
    return c.get("name") or ("<closure>" if "closure" in c else "<indirect>")


def callee_path(t):
    c = t["callee"]
    return c.get("path") or c.get("closure") or "<indirect>"


def callee_resolved(t):
    c = t["callee"]
    return c.get("resolved") or c.get("path") or c.get("closure") or "<indirect>"


class Program:
    def __init__(self, facts):
        self.facts = facts
        self.meta = facts.get("_meta", {})
        self.bodies = {}
        for raw in facts["bodies"]:
            b = Body(self, raw)
            self.bodies[b.key] = b
        self.adts = {a["path"]: a for a in facts["adts"]}
        self.impls = facts["impls"]
        self.traits = {t["path"]: t for t in facts["traits"]}
        self.unsafe_blocks = facts["unsafe_blocks"]
        self.exported = set(facts["exported"])
        self._const_raw = {r["key"]: r for r in facts.get("consts", [])}
        self._const_bodies = {}
        self._closure_sites = None
        self._callers = None

    def const_body(self, key):
        """Body of a named constant of the crate (kind Const), or None"""
        if key not in self._const_bodies:
            raw = self._const_raw.get(key)
            b = None
            if raw is not None and len(raw.get("blocks", [])) <= 4:
                try:
                    b = Body(self, dict(raw, arg_count=raw.get("arg_count", 0)))
                except Exception:
                    b = None
            self._const_bodies[key] = b
        return self._const_bodies[key]

    def tracked(self, body):
        """the same body with mutation-through-&mut tracked as definitions (Engine D)"""
        if not hasattr(self, "_tracked"):
            self._tracked = {}
        if getattr(body, "inlined", False):
            nb = Body(self, body.raw, track_mut=True)      # an inlined variant is not the cached body of that key
            nb.inlined = True
            nb.inlined_from = set(getattr(body, "inlined_from", ()))
            return nb
        if body.key not in self._tracked:
            self._tracked[body.key] = Body(self, body.raw, track_mut=True)
        return self._tracked[body.key]

    # private functions of today's tree: the rules are anchored on them by name and read them as separate units.  Any *other*
    # private function is a helper some later change introduced; the helper-inlined view reads it in place.
    ANCHOR_FNS = frozenset(["_get_many_from_sorted_mut_unchecked", "bin_width", "build", "cast_view_mut", "central_moment_coefficients",
                            "compute_bin_width", "edge", "float_quantile_index", "float_quantile_index_fraction", "fmt",
                            "get_many_from_sorted_mut_unchecked", "higher_index", "horner_method", "inner_weighted_var", "lower_index",
                            "moments", "n_bins", "new", "quantiles_axis_mut", "remove_nan_mut"])

    def new_helper(self, cb):
        return (not cb.is_closure) and cb.key not in self.exported and cb.name not in self.ANCHOR_FNS and len(cb.blocks) <= 60 \
            and not cb.raw.get("unsafe_fn")

    def inlined_view(self):
        """a Program in which every body has the private helpers that do not exist on the reference tree inlined (identical to
        self when there are none)"""
        if getattr(self, "_inl_view", None) is not None:
            return self._inl_view
        if not any(self.new_helper(b) for b in self.bodies.values()):
            self._inl_view = self
            return self
        import copy
        v = copy.copy(self)
        v.bodies = {}
        for k, b in self.bodies.items():
            v.bodies[k] = inline_calls(self, b, self.new_helper, max_depth=3)
        # a closure written in an inlined helper gets one copy per routine that inlined the helper (key `<closure>@<routine>`),
        # so that its captures resolve to that routine's own values and not to those of another caller of the same helper
        helper_closures = [ck for ck, cb in self.bodies.items() if cb.is_closure and cb.root in self.bodies and self.new_helper(self.bodies[cb.root])]
        if helper_closures:
            for k in list(v.bodies):
                b = v.bodies[k]
                frm = getattr(b, "inlined_from", None)
                if not frm or b.is_closure:
                    continue
                mine = [ck for ck in helper_closures if self.bodies[ck].root in frm]
                if not mine:
                    continue
                ren = {ck: "%s@%s" % (ck, k) for ck in mine}

                def rewrite(o):
                    if isinstance(o, dict):
                        return {kk: (ren.get(vv, vv) if (kk in ("closure", "resolved", "path") and isinstance(vv, str)) else rewrite(vv)) for kk, vv in o.items()}
                    if isinstance(o, list):
                        return [rewrite(x) for x in o]
                    return o
                nraw = dict(b.raw, blocks=rewrite(b.raw["blocks"]))
                nb = Body(self, nraw, track_mut=b.track_mut)
                nb.inlined = True
                nb.inlined_from = set(frm)
                v.bodies[k] = nb
                for ck in mine:
                    cb = v.bodies.get(ck) or self.bodies[ck]
                    craw = dict(cb.raw, key=ren[ck], root=k, blocks=rewrite(cb.raw["blocks"]))
                    ncb = Body(self, craw, track_mut=cb.track_mut)
                    ncb.inlined = True
                    v.bodies[ren[ck]] = ncb
        v._closure_sites = None
        v._callers = None
        v._tracked = {}
        v._inl_view = v
        self._inl_view = v
        return v

    def find(self, suffix, required=True):
        """unique body whose key ends with `suffix`"""
        ms = [b for k, b in self.bodies.items() if k.endswith(suffix)]
        if len(ms) == 1:
            return ms[0]
        if not ms and not required:
            return None
        raise AnchorMissing("anchor missing: %d bodies match %r" % (len(ms), suffix))

    def find_all(self, pred):
        return [b for b in self.bodies.values() if pred(b)]

    def method(self, trait_tail, name, required=True):
        """the (single) impl body of method `name` of local trait `…trait_tail`"""
        ms = [b for b in self.bodies.values()
              if b.name == name and (b.raw.get("impl_trait") or "").endswith(trait_tail)]
        if len(ms) == 1:
            return ms[0]
        if not ms and not required:
            return None
        raise AnchorMissing("anchor missing: %d impls of %s::%s" % (len(ms), trait_tail, name))

    def closures_of(self, body):
        """closures whose typeck root is `body` (all nesting levels), in key order"""
        roots = {body.key} | set(getattr(body, "inlined_from", ()))     # closures written in an inlined private helper belong to the caller too
        return sorted([b for b in self.bodies.values() if b.is_closure and b.root in roots],
                      key=lambda b: b.key)

    def closure_site(self, closure_key):
        """(parent body, bb, stmt idx, upvar exprs) where the closure value is built"""
        if self._closure_sites is None:
            self._closure_sites = {}
            for b in self.bodies.values():
                for bb, si, s in b.assigns():
                    rv = s["rv"]
                    if rv["k"] == "agg" and "closure" in rv:
                        ck = rv["closure"]
                        prev = self._closure_sites.get(ck)
                        # in the helper-inlined view a closure written in a helper is also built in the routine that inlined the
                        # helper: that routine (where the captures are the routine's own values) is the site of interest
                        own_root = ck.rsplit("::{closure", 1)[0]
                        if prev is None or (prev[0].key == own_root and b.key != own_root) or \
                                (prev[0].key != own_root and b.key != own_root and prev[0].is_closure and not b.is_closure):
                            self._closure_sites[ck] = (b, bb, si)
        site = self._closure_sites.get(closure_key)
        if site is None:
            return None
        b, bb, si = site
        s = b.blocks[bb]["stmts"][si]
        ups = [b.operand_expr(f, bb, si) for f in s["rv"]["fields"]]
        return b, bb, si, ups

    def local_callee_body(self, t):
        """Body of a crate-local callee of call terminator t (resolved instance preferred)"""
        c = t["callee"]
        for k in (c.get("resolved"), c.get("path"), c.get("closure")):
            if k and k in self.bodies:
                return self.bodies[k]
        # a required method called on `Self` inside a default method of a *private* trait with exactly one implementation in the
        # crate: that implementation is the only code the call can reach
        tr = c.get("trait")
        if tr and c.get("self_ty") == "Self" and not (c.get("krate") or "").startswith(("core", "std", "alloc")):
            idx = getattr(self, "_sole_impls", None)
            if idx is None:
                idx = {}
                for b_ in self.bodies.values():
                    it_ = b_.raw.get("impl_trait")
                    if it_ and not b_.is_closure:
                        idx.setdefault((it_, b_.name), []).append(b_)
                self._sole_impls = idx
            cands = idx.get((tr, c.get("name")), [])
            if len(cands) == 1 and cands[0].key not in self.exported and \
                    not any(k2 in self.exported for k2 in self.bodies if k2.startswith(tr + "::")):
                return cands[0]
        return None

    def callers(self):
        if self._callers is None:
            self._callers = {}
            for b in self.bodies.values():
                for bb, t in b.calls():
                    cb = self.local_callee_body(t)
                    if cb is not None:
                        self._callers.setdefault(cb.key, []).append((b, bb))
        return self._callers

    def source_bodies(self):
        """bodies that are hand-written source (incl. local macro_rules expansions), not derives"""
        out = []
        for b in self.bodies.values():
            sp = b.raw.get("sp", {})
            exp = sp.get("exp")
            if exp and not exp.get("local") and "Derive" in exp.get("kind", ""):
                continue
            if exp and "Derive" in exp.get("kind", ""):
                continue
            out.append(b)
        return out


class AnchorMissing(Exception):
    pass


# ---------------------------------------------------------------------------------------------
# MIR-level inlining of private helpers (used by the abstract interpreters of Engines E/F so that a loop moved into a
# helper function is analysed in place)

def _remap(obj, loff, boff, poff, zero_to=None):
    """deep copy of a statement/terminator/place/operand with locals shifted by loff, promoted indices by poff; the callee's
    return place (local 0) becomes `zero_to` when given (the caller's destination local)"""
    if isinstance(obj, list):
        return [_remap(x, loff, boff, poff, zero_to) for x in obj]
    if isinstance(obj, dict):
        out = {}
        for k, v in obj.items():
            if k == "l" and isinstance(v, int):
                out[k] = zero_to if (v == 0 and zero_to is not None) else v + loff
            elif k == "index" and isinstance(v, int):
                out[k] = v + loff
            elif k == "promoted" and isinstance(v, int):
                out[k] = v + poff
            elif k == "callee" and isinstance(v, dict) and "pl" in v:
                out[k] = dict(v, pl=_remap(v["pl"], loff, boff, poff, zero_to))       # the function-pointer operand of an indirect call
            elif k in ("sp", "fn_sp", "callee", "arg_tys"):
                out[k] = v
            else:
                out[k] = _remap(v, loff, boff, poff, zero_to)
        return out
    return obj


def inline_calls(prog, body, should_inline, max_depth=2):
    """new Body in which every call to a crate-local callee accepted by should_inline(callee_body) is replaced by the
    callee's blocks (locals and blocks renumbered, arguments copied into the parameters, the return value into the
    destination).  Recursive callees are never inlined."""
    raw = json.loads(json.dumps({k: v for k, v in body.raw.items()}))
    changed = False
    inlined_from = set(getattr(body, "inlined_from", ()))
    for _depth in range(max_depth):
        did = False
        nblocks = len(raw["blocks"])
        for bi in range(nblocks):
            blk = raw["blocks"][bi]
            t = blk["term"]
            if blk.get("cleanup") or t["k"] != "call" or t.get("target") is None:
                continue
            cb = prog.local_callee_body(t)
            if cb is None or cb.key == body.key or cb.is_closure or not should_inline(cb):
                continue
            craw = cb.raw
            inlined_from.add(cb.key)
            loff = len(raw["locals"])
            boff = len(raw["blocks"])
            poff = len(raw.get("promoted", []))
            raw["locals"].extend(json.loads(json.dumps(craw["locals"])))
            raw.setdefault("promoted", []).extend(json.loads(json.dumps(craw.get("promoted", []))))
            # arguments → parameters
            for ai, a in enumerate(t["args"]):
                blk["stmts"].append({"k": "assign", "dst": {"l": loff + 1 + ai, "p": []}, "rv": {"k": "use", "a": a}, "sp": t["sp"]})
            dst, target = t["dst"], t["target"]
            # the callee writes its result straight into the caller's destination when that is a whole local (as hand-inlined
            # code would): error / success aggregates of a forwarded `helper(..)` then define the caller's own return place
            z = dst["l"] if not dst["p"] else None
            blk["term"] = {"k": "goto", "target": boff, "sp": t["sp"]}
            for cbi, cblk in enumerate(craw["blocks"]):
                nb = {"stmts": _remap(cblk["stmts"], loff, boff, poff, z), "cleanup": cblk.get("cleanup", False)}
                ct = cblk["term"]
                k = ct["k"]
                if k == "return":
                    if z is None:
                        nb["stmts"].append({"k": "assign", "dst": dst, "rv": {"k": "use", "a": {"k": "move", "pl": {"l": loff, "p": []}}}, "sp": ct["sp"]})
                    nb["term"] = {"k": "goto", "target": target, "sp": ct["sp"]}
                else:
                    nt = _remap(ct, loff, boff, poff, z)
                    for key in ("target", "otherwise", "cleanup"):
                        if isinstance(nt.get(key), int):
                            nt[key] = nt[key] + boff
                    if k == "switch":
                        nt["arms"] = [[v, tg + boff] for v, tg in ct["arms"]]
                    nb["term"] = nt
                raw["blocks"].append(nb)
            did = True
            changed = True
        if not did:
            break
    if not changed:
        return body
    nbdy = Body(prog, raw, track_mut=body.track_mut)
    nbdy.inlined = True
    nbdy.inlined_from = inlined_from
    return nbdy



def eliminate_static_refs(prog, body):
    """Scalar replacement of references: a local that is assigned exactly once, with `&x` / `&mut x` of a whole local x (or a copy
    / reborrow of such a reference), always points at x.  Every place `(*r).rest` is rewritten to `x.rest`, so that a cursor
    handed to an inlined helper as `&mut i` is read and written as `i` itself by the integer engines.  Returns a new Body (the
    original when nothing changes)."""
    raw = body.raw
    defs = {}
    for blk in raw["blocks"]:
        for s_ in blk["stmts"]:
            if s_["k"] in ("assign", "setdiscr") and not s_["dst"]["p"]:
                defs.setdefault(s_["dst"]["l"], []).append(s_.get("rv"))
        t = blk["term"]
        if t["k"] == "call" and not t["dst"]["p"]:
            defs.setdefault(t["dst"]["l"], []).append({"k": "call"})
    nargs = raw.get("arg_count", 0)
    target = {}
    changed = True
    while changed:
        changed = False
        for l, rvs in defs.items():
            if l in target or len(rvs) != 1 or l <= nargs or rvs[0] is None:
                continue
            rv = rvs[0]
            tgt = None
            if rv["k"] == "ref" and not rv["pl"]["p"] and rv["pl"]["l"] > 0:
                x = rv["pl"]["l"]
                ty = raw["locals"][x].get("ty", "") if x < len(raw["locals"]) else ""
                if not ty.startswith("&"):
                    tgt = x
            elif rv["k"] == "ref" and rv["pl"]["l"] in target and all(p_ == "deref" for p_ in rv["pl"]["p"]) and rv["pl"]["p"]:
                tgt = target[rv["pl"]["l"]]
            elif rv["k"] == "use" and rv["a"]["k"] in ("move", "copy") and not rv["a"]["pl"]["p"] and rv["a"]["pl"]["l"] in target:
                tgt = target[rv["a"]["pl"]["l"]]
            if tgt is not None:
                target[l] = tgt
                changed = True
    # only integer targets are of interest (and safe to treat as plain variables)
    target = {r: x for r, x in target.items() if any(k_ in (raw["locals"][x].get("ty", "")) for k_ in ("usize", "isize", "u64", "u32", "i64", "i32", "u16", "u8"))
              and not raw["locals"][x].get("ty", "").startswith(("&", "(", "["))}
    if not target:
        return body
    new = json.loads(json.dumps(raw))
    n = [0]

    def fix(o):
        if isinstance(o, dict):
            if "l" in o and "p" in o and isinstance(o["p"], list) and o["l"] in target and o["p"] and o["p"][0] == "deref":
                o["l"] = target[o["l"]]
                o["p"] = o["p"][1:]
                n[0] += 1
            for v in o.values():
                fix(v)
        elif isinstance(o, list):
            for v in o:
                fix(v)
    fix(new["blocks"])
    if not n[0]:
        return body
    nb = Body(prog, new, track_mut=body.track_mut)
    nb.inlined = True
    nb.inlined_from = set(getattr(body, "inlined_from", ()))
    return nb



def forward_result_local(prog, body):
    """`let mut outcome = Err(E); if c { ..; outcome = Ok(v) } outcome` – a local that is only ever assigned whole values, never
    borrowed, and whose single use is the final `_0 = move outcome` is the return place under another name (named return value):
    its assignments are rewritten into assignments of the return place, so that each path's result is the value assigned on it."""
    raw = body.raw
    nargs = raw.get("arg_count", 0)
    uses, defs, other = {}, {}, set()
    ret_moves = []
    for bi, blk in enumerate(raw["blocks"]):
        for si, s_ in enumerate(blk["stmts"]):
            if s_.get("k") != "assign":
                continue
            rv = s_["rv"]
            if not s_["dst"]["p"]:
                defs.setdefault(s_["dst"]["l"], []).append((bi, si))
            else:
                other.add(s_["dst"]["l"])
            if rv.get("k") == "use" and rv["a"]["k"] in ("move", "copy") and not rv["a"]["pl"]["p"] and s_["dst"]["l"] == 0 and not s_["dst"]["p"]:
                ret_moves.append((bi, si, rv["a"]["pl"]["l"]))
    if len(ret_moves) != 1:
        return body
    bi0, si0, L = ret_moves[0]
    if L <= nargs or L in other or L not in defs or len(defs.get(0, [])) != 1:
        return body
    # every other mention of L must be one of its whole-value definitions
    def mentions(obj, acc):
        if isinstance(obj, list):
            for x in obj:
                mentions(x, acc)
        elif isinstance(obj, dict):
            for k, v in obj.items():
                if k == "l" and v == L:
                    acc.append(1)
                elif k in ("sp", "fn_sp", "arg_tys"):
                    continue
                else:
                    mentions(v, acc)
    total = []
    for blk in raw["blocks"]:
        mentions(blk["stmts"], total)
        mentions(blk["term"], total)
    # definitions (dst) + the one move; drops / storage markers of L are tolerated by the count of `drop` terminators below
    drops = sum(1 for blk in raw["blocks"] if blk["term"]["k"] == "drop" and blk["term"]["pl"]["l"] == L and not blk["term"]["pl"]["p"])
    call_defs = sum(1 for blk in raw["blocks"] if blk["term"]["k"] == "call" and not blk["term"]["dst"]["p"] and blk["term"]["dst"]["l"] == L)
    if len(total) != len(defs[L]) + 1 + drops + call_defs:
        return body
    new = json.loads(json.dumps(raw))
    for (bi, si) in defs[L]:
        new["blocks"][bi]["stmts"][si]["dst"]["l"] = 0
    for blk in new["blocks"]:
        t_ = blk["term"]
        if t_["k"] == "call" and not t_["dst"]["p"] and t_["dst"]["l"] == L:
            t_["dst"]["l"] = 0
        if t_["k"] == "drop" and t_["pl"]["l"] == L and not t_["pl"]["p"]:
            blk["term"] = {"k": "goto", "target": t_["target"], "sp": t_.get("sp")}
    del new["blocks"][bi0]["stmts"][si0]
    nb = Body(prog, new, promoted_of=None)
    for attr in ("inlined", "inlined_from", "_pred_threaded"):
        if hasattr(body, attr):
            setattr(nb, attr, getattr(body, attr))
    nb.inlined = True
    return nb


def thread_constant_flags(prog, body):
    """Jump threading for loop-control flags: a bool local that is only ever assigned the constants true / false and tested by a
    switch (`while !done { .. if c { done = true } .. }`).  An edge that sets the flag to a constant and then jumps to the testing
    block is redirected to a copy of that block which goes straight to the arm the constant selects.  The flag-controlled loop
    becomes an ordinary loop with a break, which is what the invariant and progress engines understand.  The transformation only
    duplicates the testing block's own statements; no path is added or removed."""
    raw = body.raw
    nargs = raw.get("arg_count", 0)
    defs, reffed = {}, set()
    for blk in raw["blocks"]:
        for s_ in blk["stmts"]:
            if s_["k"] in ("assign", "setdiscr"):
                if not s_["dst"]["p"]:
                    defs.setdefault(s_["dst"]["l"], []).append(s_.get("rv"))
                rv = s_.get("rv") or {}
                if rv.get("k") == "ref":
                    reffed.add(rv["pl"]["l"])
        t = blk["term"]
        if t["k"] == "call" and not t["dst"]["p"]:
            defs.setdefault(t["dst"]["l"], []).append({"k": "call"})

    def const_bool(rv):
        if rv and rv.get("k") == "use" and rv["a"]["k"] == "const" and "bool" in rv["a"]["c"]:
            return bool(rv["a"]["c"]["bool"])
        return None
    flags = {l for l, rvs in defs.items() if l > nargs and l not in reffed and rvs and all(const_bool(rv) is not None for rv in rvs)
             and (raw["locals"][l].get("ty") == "bool")}
    # bools that are *sometimes* assigned a constant (the result of an inlined `a && b` predicate: `r = false` on one path,
    # `r = <comparison>` on the other): only their constant-assigning predecessors are threaded
    partial = {l for l, rvs in defs.items() if l > nargs and l not in reffed and l not in flags and (raw["locals"][l].get("ty") == "bool")
               and any(const_bool(rv) is not None for rv in rvs)}
    if not flags and not partial:
        return body
    new = json.loads(json.dumps(raw))
    blocks = new["blocks"]
    changed = False
    n0 = len(blocks)

    def succs(bi):
        t_ = blocks[bi]["term"]
        k_ = t_["k"]
        if k_ == "goto":
            return [t_["target"]]
        if k_ == "switch":
            return [tg for _v, tg in t_["arms"]] + [t_["otherwise"]]
        if k_ in ("call", "assert", "drop"):
            return [t_["target"]] if t_.get("target") is not None else []
        return []

    def test_of(bi):
        """(flag, negated) if block bi ends in a switch on a flag (directly, or on `!flag` / a copy computed in the block)"""
        S = blocks[bi]
        t = S["term"]
        if S.get("cleanup") or t["k"] != "switch" or t["discr"]["k"] not in ("move", "copy") or t["discr"]["pl"]["p"]:
            return None
        d = t["discr"]["pl"]["l"]
        F, neg = None, False
        if d in flags:
            F = d
        else:
            ds_ = [s_ for s_ in S["stmts"] if s_["k"] == "assign" and not s_["dst"]["p"] and s_["dst"]["l"] == d]
            if len(ds_) == 1:
                rv = ds_[0]["rv"]
                if rv["k"] == "unop" and rv.get("op") == "Not" and rv["a"]["k"] in ("move", "copy") and not rv["a"]["pl"]["p"] and rv["a"]["pl"]["l"] in flags:
                    F, neg = rv["a"]["pl"]["l"], True
                elif rv["k"] == "use" and rv["a"]["k"] in ("move", "copy") and not rv["a"]["pl"]["p"] and rv["a"]["pl"]["l"] in flags:
                    F = rv["a"]["pl"]["l"]
        if F is None or any(s_["k"] == "assign" and not s_["dst"]["p"] and s_["dst"]["l"] == F for s_ in S["stmts"]):
            return None
        return F, neg

    for F in sorted(flags):
        tests = {bi: test_of(bi) for bi in range(n0)}
        tests = {bi: tn for bi, tn in tests.items() if tn is not None and tn[0] == F}
        if not tests:
            continue
        # forward constant propagation of F alone: value at block entry ∈ {None (unreached), True, False, "top"}
        IN = {0: "top"}
        work = [0]
        OUT_EDGE = {}
        while work:
            bi = work.pop()
            v = IN[bi]
            for s_ in blocks[bi]["stmts"]:
                if s_["k"] == "assign" and not s_["dst"]["p"] and s_["dst"]["l"] == F:
                    v = const_bool(s_["rv"])
            t_ = blocks[bi]["term"]
            for sx in succs(bi):
                ev = v
                if bi in tests and t_["k"] == "switch":
                    neg = tests[bi][1]
                    # which flag values lead to sx?
                    vals = [dv for dv, tg in t_["arms"] if tg == sx]
                    if sx == t_["otherwise"] and not vals:
                        taken = [x for x in (0, 1) if x not in [dv for dv, _tg in t_["arms"]]]
                    else:
                        taken = vals
                    if len(taken) == 1 and sx != t_["otherwise"] or (len(taken) == 1):
                        fv = bool(taken[0])
                        ev = (not fv) if neg else fv
                OUT_EDGE[(bi, sx)] = ev
                old = IN.get(sx)
                nv = ev if old is None else (old if old == ev else "top")
                if nv != old:
                    IN[sx] = nv
                    work.append(sx)
        for si, (F_, neg) in tests.items():
            S = blocks[si]
            t = S["term"]
            for pi in range(n0):
                P = blocks[pi]
                if P.get("cleanup") or pi == si or P["term"]["k"] != "goto" or pi not in IN:
                    continue
                tgt = P["term"]["target"]
                hops = 0
                while tgt != si and hops < 3 and not blocks[tgt]["stmts"] and blocks[tgt]["term"]["k"] == "goto":
                    tgt = blocks[tgt]["term"]["target"]
                    hops += 1
                if tgt != si:
                    continue
                val = OUT_EDGE.get((pi, P["term"]["target"]))
                if val not in (True, False):
                    continue
                dv = int((not val) if neg else val)
                dest = t["otherwise"]
                for v_, tg in t["arms"]:
                    if v_ == dv:
                        dest = tg
                clone = {"stmts": json.loads(json.dumps(S["stmts"])), "cleanup": False, "term": {"k": "goto", "target": dest, "sp": t.get("sp")}}
                blocks.append(clone)
                P["term"] = dict(P["term"], target=len(blocks) - 1)
                changed = True
    # partial flags: thread the predecessors whose own last assignment to the tested bool is a constant
    for si in range(n0):
        S = blocks[si]
        t = S["term"]
        if S.get("cleanup") or t["k"] != "switch" or t["discr"]["k"] not in ("move", "copy") or t["discr"]["pl"]["p"]:
            continue
        d = t["discr"]["pl"]["l"]
        F, neg = None, False
        if d in partial:
            F = d
        else:
            ds_ = [s_ for s_ in S["stmts"] if s_["k"] == "assign" and not s_["dst"]["p"] and s_["dst"]["l"] == d]
            if len(ds_) == 1:
                rv = ds_[0]["rv"]
                if rv["k"] == "unop" and rv.get("op") == "Not" and rv["a"]["k"] in ("move", "copy") and not rv["a"]["pl"]["p"] and rv["a"]["pl"]["l"] in partial:
                    F, neg = rv["a"]["pl"]["l"], True
                elif rv["k"] == "use" and rv["a"]["k"] in ("move", "copy") and not rv["a"]["pl"]["p"] and rv["a"]["pl"]["l"] in partial:
                    F = rv["a"]["pl"]["l"]
        if F is None or any(s_["k"] == "assign" and not s_["dst"]["p"] and s_["dst"]["l"] == F for s_ in S["stmts"]):
            continue
        for pi in range(n0):
            P = blocks[pi]
            if P.get("cleanup") or pi == si or P["term"]["k"] != "goto":
                continue
            tgt = P["term"]["target"]
            hops = 0
            while tgt != si and hops < 3 and not blocks[tgt]["stmts"] and blocks[tgt]["term"]["k"] == "goto":
                tgt = blocks[tgt]["term"]["target"]
                hops += 1
            if tgt != si:
                continue
            val = None
            for s_ in P["stmts"]:
                if s_["k"] == "assign" and not s_["dst"]["p"] and s_["dst"]["l"] == F:
                    val = const_bool(s_["rv"])
            if val is None:
                continue
            dv = int((not val) if neg else val)
            dest = t["otherwise"]
            for v_, tg in t["arms"]:
                if v_ == dv:
                    dest = tg
            clone = {"stmts": json.loads(json.dumps(S["stmts"])), "cleanup": False, "term": {"k": "goto", "target": dest, "sp": t.get("sp")}}
            blocks.append(clone)
            P["term"] = dict(P["term"], target=len(blocks) - 1)
            changed = True
    if not changed:
        return body
    nb = Body(prog, new, track_mut=body.track_mut)
    nb.inlined = True
    nb.inlined_from = set(getattr(body, "inlined_from", ()))
    return nb



def lower_checked_arith(prog, body):
    """`match a.checked_sub(b) { Some(x) => .., None => .. }` spelled out for the integer engines: the call becomes the comparison
    `a < b`, the switch on the Option's discriminant becomes a switch on that comparison (true → the None arm, false → the Some
    arm), and every read of the payload `(o as Some).0` becomes `a - b` (which cannot wrap on that arm).  Only applied when the
    Option local has no other use."""
    raw = body.raw
    cand = []
    for bi, blk in enumerate(raw["blocks"]):
        t = blk["term"]
        if blk.get("cleanup") or t["k"] != "call" or t.get("target") is None or t["dst"]["p"]:
            continue
        c = t["callee"]
        if (c.get("name") != "checked_sub") or len(t["args"]) != 2:
            continue
        a, b_ = t["args"]
        okop = lambda o: (o["k"] == "const" and "int" in o["c"]) or (o["k"] in ("move", "copy") and not o["pl"]["p"])
        if not (okop(a) and okop(b_)):
            continue
        cand.append((bi, t["dst"]["l"], a, b_))
    if not cand:
        return body
    new = json.loads(json.dumps(raw))
    blocks = new["blocks"]
    changed = False
    for bi, O, a, b_ in cand:
        # every occurrence of O: the call's dst, `discr(O)` statements, payload reads
        uses_ok = True
        discr_sites, payload_sites = [], []

        def scan(o, where):
            nonlocal uses_ok
            if isinstance(o, dict):
                if o.get("l") == O and "p" in o:
                    kind = None
                    p_ = o["p"]
                    if len(p_) == 2 and isinstance(p_[0], dict) and "downcast" in p_[0] and isinstance(p_[1], dict) and p_[1].get("field") == 0:
                        kind = "payload"
                    elif not p_:
                        kind = "whole"
                    where.append(kind)
                for v in o.values():
                    scan(v, where)
            elif isinstance(o, list):
                for v in o:
                    scan(v, where)
        for xi, blk in enumerate(blocks):
            for si, s_ in enumerate(blk["stmts"]):
                w = []
                scan(s_, w)
                if not w:
                    continue
                rv = s_.get("rv") or {}
                if s_["k"] == "assign" and rv.get("k") == "discr" and rv["pl"]["l"] == O and not rv["pl"]["p"] and w == ["whole"]:
                    discr_sites.append((xi, si))
                elif s_["k"] == "assign" and rv.get("k") == "use" and w == ["payload"] and rv["a"]["k"] in ("move", "copy"):
                    payload_sites.append((xi, si))
                elif s_["k"] in ("storage_live", "storage_dead", "nop"):
                    continue
                else:
                    uses_ok = False
            w = []
            tt = {k: v for k, v in blk["term"].items() if k not in ("callee",)}
            scan(tt, w)
            if w and not (xi == bi and w == ["whole"]):
                uses_ok = False
        if not uses_ok or len(discr_sites) != 1:
            continue
        dbb, dsi = discr_sites[0]
        dl = blocks[dbb]["stmts"][dsi]["dst"]["l"]
        sw = blocks[dbb]["term"]
        if sw["k"] != "switch" or sw["discr"]["k"] not in ("move", "copy") or sw["discr"]["pl"]["l"] != dl or sw["discr"]["pl"]["p"]:
            continue
        some_t = [tg for v, tg in sw["arms"] if v == 1]
        none_t = [tg for v, tg in sw["arms"] if v == 0]
        if some_t and not none_t:
            none_tgt, some_tgt = sw["otherwise"], some_t[0]
        elif none_t and not some_t:
            none_tgt, some_tgt = none_t[0], sw["otherwise"]
        elif none_t and some_t:
            none_tgt, some_tgt = none_t[0], some_t[0]
        else:
            continue
        # new bool local  c = a < b
        cl = len(new["locals"])
        new["locals"].append({"ty": "bool", "flags": ["bool"], "mutable": False})
        acopy = a if a["k"] == "const" else {"k": "copy", "pl": a["pl"]}
        bcopy = b_ if b_["k"] == "const" else {"k": "copy", "pl": b_["pl"]}
        call_blk = blocks[bi]
        sp = call_blk["term"].get("sp")
        call_blk["stmts"].append({"k": "assign", "dst": {"l": cl, "p": []}, "rv": {"k": "binop", "op": "Lt", "a": acopy, "b": bcopy}, "sp": sp})
        call_blk["term"] = {"k": "goto", "target": call_blk["term"]["target"], "sp": sp}
        blocks[dbb]["stmts"][dsi] = {"k": "nop", "sp": sp}
        blocks[dbb]["term"] = {"k": "switch", "discr": {"k": "move", "pl": {"l": cl, "p": []}}, "arms": [[0, some_tgt]], "otherwise": none_tgt,
                               "discr_ty": "bool", "sp": sw.get("sp")}
        for xi, si in payload_sites:
            st = blocks[xi]["stmts"][si]
            st["rv"] = {"k": "binop", "op": "Sub", "a": acopy, "b": bcopy}
        changed = True
    if not changed:
        return body
    nb = Body(prog, new, track_mut=body.track_mut)
    nb.inlined = True
    nb.inlined_from = set(getattr(body, "inlined_from", ()))
    return nb
