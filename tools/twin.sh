#!/bin/sh
# tools/twin.sh <base.patch> <new-name> <header> <sed-expr> <file>: mutants/<new-name>.patch = base patch + one sed edit of <file> (diff against /repo)
set -e
B="$(realpath "$1")"; N="$2"; H="$3"; E="$4"; F="$5"
T=/tmp/nsa-twin; rm -rf $T; mkdir -p $T
rsync -a --exclude target --exclude .git /repo/ $T/a/
cp -r $T/a $T/b
(cd $T/b && patch -p1 -s --no-backup-if-mismatch -i "$B")
cp $T/b/$F $T/before
sed -i "$E" $T/b/$F
if cmp -s $T/before $T/b/$F; then echo "sed changed nothing"; rm -rf $T; exit 1; fi
(cd $T && (echo "# $H"; diff -ruN a/src b/src | grep -v '^diff -ruN' | sed -E 's/^(---|\+\+\+) ([ab]\/[^\t]*)\t.*/\1 \2/') > /verif/mutants/$N.patch) || true
rm -rf $T
echo "wrote mutants/$N.patch"
