// nsfacts — fact extractor for the static checks of ndarray-stats (Engine A of /verif/DESIGN.md).
//
// Runs as RUSTC_WORKSPACE_WRAPPER under `cargo +nightly check`.  For the crate named in
// NSFACTS_CRATE (default `ndarray_stats`) it writes ONE json file (NSFACTS_OUT) holding, for the
// type-checked program: every MIR body (fns, assoc fns, closures, promoteds) in a small normal
// form with resolved callees, every ADT with field visibilities/repr, every impl header, every
// unsafe block (from THIR-free HIR walk), and item visibilities.  Nothing is executed.
#![feature(rustc_private)]
#![allow(clippy::all)]

extern crate rustc_abi;
extern crate rustc_driver;
extern crate rustc_hir;
extern crate rustc_interface;
extern crate rustc_middle;
extern crate rustc_span;

mod json;
use json::J;

use rustc_driver::{Callbacks, Compilation};
use rustc_hir as hir;
use rustc_hir::def::DefKind;
use rustc_hir::def_id::{DefId, LocalDefId};
use rustc_interface::interface::Compiler;
use rustc_middle::mir::{
    self, AggregateKind, BasicBlockData, Body, Const as MirConst, Operand, Place, ProjectionElem,
    Rvalue, StatementKind, TerminatorKind,
};
use rustc_middle::ty::{self, Instance, Ty, TyCtxt, TypingEnv};
use rustc_span::Span;

struct Cb;

impl Callbacks for Cb {
    fn after_analysis<'tcx>(&mut self, _c: &Compiler, tcx: TyCtxt<'tcx>) -> Compilation {
        let want = std::env::var("NSFACTS_CRATE").unwrap_or_else(|_| "ndarray_stats".to_string());
        let name = tcx.crate_name(rustc_hir::def_id::LOCAL_CRATE).to_string();
        if name != want {
            return Compilation::Continue;
        }
        let out = match std::env::var("NSFACTS_OUT") {
            Ok(o) => o,
            Err(_) => return Compilation::Continue,
        };
        let facts = extract(tcx, &name);
        let text = facts.to_string();
        let tmp = format!("{}.tmp.{}", out, std::process::id());
        std::fs::write(&tmp, text).expect("nsfacts: cannot write facts");
        std::fs::rename(&tmp, &out).expect("nsfacts: cannot rename facts");
        Compilation::Continue
    }
}

fn main() {
    let mut args: Vec<String> = std::env::args().collect();
    // RUSTC_WORKSPACE_WRAPPER passes the real rustc path as argv[1].
    if args.len() > 1 && (args[1].ends_with("rustc") || args[1].contains("/rustc")) {
        args.remove(1);
    }
    rustc_driver::run_compiler(&args, &mut Cb);
}

// ------------------------------------------------------------------------------------------

fn span_json<'tcx>(tcx: TyCtxt<'tcx>, sp: Span) -> J {
    let sm = tcx.sess.source_map();
    // location of the outermost call site inside the crate's own source (macro uses are reported at
    // the place where the *expanded code* lives, i.e. the macro definition body for local macros)
    let lo = sm.lookup_char_pos(sp.lo());
    let file = match &lo.file.name {
        rustc_span::FileName::Real(r) => r
            .local_path()
            .map(|p| p.to_string_lossy().to_string())
            .unwrap_or_else(|| format!("{:?}", r)),
        other => format!("{:?}", other),
    };
    let mut o = vec![
        ("file".to_string(), J::Str(file)),
        ("line".to_string(), J::Num(lo.line as i128)),
        ("col".to_string(), J::Num(lo.col.0 as i128 + 1)),
    ];
    // expansion tag
    let exp = if sp.from_expansion() {
        let data = sp.ctxt().outer_expn_data();
        let kind = format!("{:?}", data.kind);
        let local = data.macro_def_id.map(|d| d.is_local()).unwrap_or(false);
        // callsite in source
        let cs = sp.source_callsite();
        let cl = sm.lookup_char_pos(cs.lo());
        o.push(("call_line".to_string(), J::Num(cl.line as i128)));
        let cfile = match &cl.file.name {
            rustc_span::FileName::Real(r) => r
                .local_path()
                .map(|p| p.to_string_lossy().to_string())
                .unwrap_or_else(|| format!("{:?}", r)),
            other => format!("{:?}", other),
        };
        o.push(("call_file".to_string(), J::Str(cfile)));
        J::Obj(vec![
            ("kind".to_string(), J::Str(kind)),
            ("local".to_string(), J::Bool(local)),
        ])
    } else {
        J::Null
    };
    o.push(("exp".to_string(), exp));
    J::Obj(o)
}

fn ty_flags<'tcx>(tcx: TyCtxt<'tcx>, ty: Ty<'tcx>) -> J {
    // structural flags about a type, computed here so that rules do not parse type strings
    let mut flags: Vec<J> = Vec::new();
    let mut peeled = ty;
    let mut mut_ref = false;
    let mut any_ref = false;
    loop {
        match peeled.kind() {
            ty::Ref(_, inner, m) => {
                any_ref = true;
                if m.is_mut() {
                    mut_ref = true;
                }
                peeled = *inner;
            }
            _ => break,
        }
    }
    if any_ref {
        flags.push(J::Str("ref".into()));
    }
    if mut_ref {
        flags.push(J::Str("mutref".into()));
    }
    match peeled.kind() {
        ty::Adt(adt, args) => {
            let p = tcx.def_path_str(adt.did());
            flags.push(J::Str(format!("adt:{}", p)));
            if p.ends_with("ArrayBase") {
                flags.push(J::Str("array".into()));
                if let Some(s) = args.get(0).and_then(|a| a.as_type()) {
                    let ss = s.to_string();
                    if ss.contains("ViewRepr<&mut") || ss.contains("ViewRepr<&'") && ss.contains(" mut ") {
                        flags.push(J::Str("viewmut".into()));
                    } else if ss.contains("ViewRepr<&") {
                        flags.push(J::Str("view".into()));
                    } else if ss.contains("OwnedRepr") {
                        flags.push(J::Str("owned".into()));
                    }
                }
                if let Some(d) = args.get(1).and_then(|a| a.as_type()) {
                    flags.push(J::Str(format!("dim:{}", d)));
                }
            }
        }
        ty::RawPtr(_, m) => {
            flags.push(J::Str("rawptr".into()));
            if m.is_mut() {
                flags.push(J::Str("rawmut".into()));
            }
        }
        ty::Uint(u) => flags.push(J::Str(format!("uint:{}", u.name_str()))),
        ty::Int(u) => flags.push(J::Str(format!("int:{}", u.name_str()))),
        ty::Float(u) => flags.push(J::Str(format!("float:{}", u.name_str()))),
        ty::Bool => flags.push(J::Str("bool".into())),
        ty::Closure(d, _) => flags.push(J::Str(format!("closure:{}", tcx.def_path_str(*d)))),
        ty::FnDef(d, _) => flags.push(J::Str(format!("fndef:{}", tcx.def_path_str(*d)))),
        ty::Param(p) => flags.push(J::Str(format!("param:{}", p.name))),
        ty::Tuple(ts) => flags.push(J::Str(format!("tuple:{}", ts.len()))),
        ty::Slice(_) => flags.push(J::Str("slice".into())),
        ty::Array(..) => flags.push(J::Str("arrayty".into())),
        _ => {}
    }
    J::Arr(flags)
}

fn const_json<'tcx>(tcx: TyCtxt<'tcx>, body_def: DefId, c: &MirConst<'tcx>) -> J {
    let ty = c.ty();
    let mut o: Vec<(String, J)> = vec![("ty".into(), J::Str(ty.to_string()))];
    match ty.kind() {
        ty::FnDef(d, args) => {
            o.push(("fn".into(), J::Str(tcx.def_path_str(*d))));
            o.push((
                "fn_args".into(),
                J::Arr(args.iter().map(|a| J::Str(a.to_string())).collect()),
            ));
        }
        _ => {}
    }
    // promoted?
    if let MirConst::Unevaluated(uv, _) = c {
        if let Some(p) = uv.promoted {
            o.push(("promoted".into(), J::Num(p.as_usize() as i128)));
        } else {
            o.push(("uneval".into(), J::Str(tcx.def_path_str(uv.def))));
        }
    }
    // scalar value
    let env = TypingEnv::post_analysis(tcx, body_def);
    if ty.is_integral() || ty.is_bool() || ty.is_floating_point() || ty.is_char() {
        if let Some(si) = c.try_eval_scalar_int(tcx, env) {
            let size = si.size();
            let bits = si.to_bits(size);
            match ty.kind() {
                ty::Int(_) => {
                    let v = size.sign_extend(bits);
                    o.push(("int".into(), J::Num(v)));
                }
                ty::Uint(_) => {
                    if bits <= i128::MAX as u128 {
                        o.push(("int".into(), J::Num(bits as i128)));
                    } else {
                        o.push(("uint_str".into(), J::Str(bits.to_string())));
                    }
                }
                ty::Bool => o.push(("bool".into(), J::Bool(bits != 0))),
                ty::Float(ft) => {
                    let s = match ft.bit_width() {
                        32 => format!("{:?}", f32::from_bits(bits as u32)),
                        64 => format!("{:?}", f64::from_bits(bits as u64)),
                        _ => format!("bits:{}", bits),
                    };
                    o.push(("float".into(), J::Str(s)));
                }
                ty::Char => o.push(("int".into(), J::Num(bits as i128))),
                _ => {}
            }
        }
    }
    o.push(("text".into(), J::Str(format!("{}", c))));
    J::Obj(o)
}

fn place_json<'tcx>(tcx: TyCtxt<'tcx>, body: &Body<'tcx>, p: &Place<'tcx>) -> J {
    let mut proj: Vec<J> = Vec::new();
    let mut cur_ty = mir::PlaceTy::from_ty(body.local_decls[p.local].ty);
    for elem in p.projection.iter() {
        let j = match elem {
            ProjectionElem::Deref => J::Str("deref".into()),
            ProjectionElem::Field(f, _) => {
                // field name when the base is an ADT
                let mut name = format!("{}", f.as_usize());
                let mut adt_path = String::new();
                if let ty::Adt(adt, _) = cur_ty.ty.kind() {
                    adt_path = tcx.def_path_str(adt.did());
                    let vi = cur_ty.variant_index.unwrap_or(rustc_abi::FIRST_VARIANT);
                    if adt.is_enum() || adt.is_struct() {
                        if let Some(v) = adt.variants().get(vi) {
                            if let Some(fd) = v.fields.get(f) {
                                name = fd.name.to_string();
                            }
                        }
                    }
                }
                J::Obj(vec![
                    ("field".into(), J::Num(f.as_usize() as i128)),
                    ("name".into(), J::Str(name)),
                    ("adt".into(), J::Str(adt_path)),
                ])
            }
            ProjectionElem::Index(l) => J::Obj(vec![("index".into(), J::Num(l.as_usize() as i128))]),
            ProjectionElem::ConstantIndex { offset, from_end, .. } => J::Obj(vec![
                ("constindex".into(), J::Num(offset as i128)),
                ("from_end".into(), J::Bool(from_end)),
            ]),
            ProjectionElem::Subslice { from, to, from_end } => J::Obj(vec![
                ("subslice".into(), J::Arr(vec![J::Num(from as i128), J::Num(to as i128)])),
                ("from_end".into(), J::Bool(from_end)),
            ]),
            ProjectionElem::Downcast(name, vi) => J::Obj(vec![
                (
                    "downcast".into(),
                    J::Str(name.map(|n| n.to_string()).unwrap_or_default()),
                ),
                ("variant".into(), J::Num(vi.as_usize() as i128)),
            ]),
            other => J::Str(format!("{:?}", other)),
        };
        proj.push(j);
        cur_ty = cur_ty.projection_ty(tcx, elem);
    }
    J::Obj(vec![
        ("l".into(), J::Num(p.local.as_usize() as i128)),
        ("p".into(), J::Arr(proj)),
    ])
}

fn operand_json<'tcx>(tcx: TyCtxt<'tcx>, body: &Body<'tcx>, def: DefId, op: &Operand<'tcx>) -> J {
    match op {
        Operand::Copy(p) => J::Obj(vec![("k".into(), J::Str("copy".into())), ("pl".into(), place_json(tcx, body, p))]),
        Operand::Move(p) => J::Obj(vec![("k".into(), J::Str("move".into())), ("pl".into(), place_json(tcx, body, p))]),
        Operand::Constant(c) => J::Obj(vec![
            ("k".into(), J::Str("const".into())),
            ("c".into(), const_json(tcx, def, &c.const_)),
        ]),
        #[allow(unreachable_patterns)]
        other => J::Obj(vec![("k".into(), J::Str("other".into())), ("text".into(), J::Str(format!("{:?}", other)))]),
    }
}

fn rvalue_json<'tcx>(tcx: TyCtxt<'tcx>, body: &Body<'tcx>, def: DefId, rv: &Rvalue<'tcx>) -> J {
    let op = |o: &Operand<'tcx>| operand_json(tcx, body, def, o);
    let mut o: Vec<(String, J)> = Vec::new();
    match rv {
        Rvalue::Use(x, ..) => {
            o.push(("k".into(), J::Str("use".into())));
            o.push(("a".into(), op(x)));
        }
        Rvalue::Ref(_, bk, p) => {
            o.push(("k".into(), J::Str("ref".into())));
            let m = matches!(bk, mir::BorrowKind::Mut { .. });
            o.push(("mut".into(), J::Bool(m)));
            o.push(("bk".into(), J::Str(format!("{:?}", bk))));
            o.push(("pl".into(), place_json(tcx, body, p)));
        }
        Rvalue::RawPtr(kind, p) => {
            o.push(("k".into(), J::Str("rawptr".into())));
            o.push(("mut".into(), J::Bool(format!("{:?}", kind).contains("Mut"))));
            o.push(("pl".into(), place_json(tcx, body, p)));
        }
        Rvalue::BinaryOp(bop, pair) => {
            o.push(("k".into(), J::Str("binop".into())));
            o.push(("op".into(), J::Str(format!("{:?}", bop))));
            o.push(("a".into(), op(&pair.0)));
            o.push(("b".into(), op(&pair.1)));
        }
        Rvalue::UnaryOp(uop, x) => {
            o.push(("k".into(), J::Str("unop".into())));
            o.push(("op".into(), J::Str(format!("{:?}", uop))));
            o.push(("a".into(), op(x)));
        }
        Rvalue::Cast(kind, x, ty) => {
            o.push(("k".into(), J::Str("cast".into())));
            o.push(("kind".into(), J::Str(format!("{:?}", kind))));
            o.push(("a".into(), op(x)));
            o.push(("ty".into(), J::Str(ty.to_string())));
        }
        Rvalue::Aggregate(kind, fields) => {
            o.push(("k".into(), J::Str("agg".into())));
            match &**kind {
                AggregateKind::Adt(did, vi, _args, _, active) => {
                    let adt = tcx.adt_def(*did);
                    o.push(("adt".into(), J::Str(tcx.def_path_str(*did))));
                    o.push(("variant".into(), J::Str(adt.variant(*vi).name.to_string())));
                    let names: Vec<J> = adt
                        .variant(*vi)
                        .fields
                        .iter()
                        .map(|f| J::Str(f.name.to_string()))
                        .collect();
                    o.push(("field_names".into(), J::Arr(names)));
                    if let Some(a) = active {
                        o.push(("active".into(), J::Num(a.as_usize() as i128)));
                    }
                }
                AggregateKind::Tuple => o.push(("tuple".into(), J::Bool(true))),
                AggregateKind::Array(_) => o.push(("array".into(), J::Bool(true))),
                AggregateKind::Closure(did, _) => {
                    o.push(("closure".into(), J::Str(tcx.def_path_str(*did))));
                }
                other => o.push(("other".into(), J::Str(format!("{:?}", other)))),
            }
            o.push(("fields".into(), J::Arr(fields.iter().map(|f| op(f)).collect())));
        }
        Rvalue::Discriminant(p) => {
            o.push(("k".into(), J::Str("discr".into())));
            o.push(("pl".into(), place_json(tcx, body, p)));
        }
        Rvalue::Repeat(x, n) => {
            o.push(("k".into(), J::Str("repeat".into())));
            o.push(("a".into(), op(x)));
            o.push(("n".into(), J::Str(n.to_string())));
        }
        Rvalue::CopyForDeref(p) => {
            o.push(("k".into(), J::Str("use".into())));
            o.push((
                "a".into(),
                J::Obj(vec![("k".into(), J::Str("copy".into())), ("pl".into(), place_json(tcx, body, p))]),
            ));
        }
        other => {
            o.push(("k".into(), J::Str("other".into())));
            o.push(("text".into(), J::Str(format!("{:?}", other))));
        }
    }
    J::Obj(o)
}

fn callee_json<'tcx>(
    tcx: TyCtxt<'tcx>,
    body_def: DefId,
    func: &Operand<'tcx>,
    body: &Body<'tcx>,
) -> J {
    let mut o: Vec<(String, J)> = Vec::new();
    let fty = func.ty(&body.local_decls, tcx);
    match fty.kind() {
        ty::FnDef(did, args) => {
            o.push(("path".into(), J::Str(tcx.def_path_str(*did))));
            o.push(("path_args".into(), J::Str(tcx.def_path_str_with_args(*did, args))));
            o.push(("name".into(), J::Str(tcx.item_name(*did).to_string())));
            o.push(("krate".into(), J::Str(tcx.crate_name(did.krate).to_string())));
            o.push((
                "args".into(),
                J::Arr(args.iter().map(|a| J::Str(a.to_string())).collect()),
            ));
            // trait item?
            if let Some(tr) = tcx.trait_of_assoc(*did) {
                o.push(("trait".into(), J::Str(tcx.def_path_str(tr))));
                // self type of the call
                if let Some(st) = args.get(0).and_then(|a| a.as_type()) {
                    o.push(("self_ty".into(), J::Str(st.to_string())));
                    o.push(("self_flags".into(), ty_flags(tcx, st)));
                }
            }
            if let Some(imp) = tcx.impl_of_assoc(*did) {
                let st = tcx.type_of(imp).instantiate_identity().skip_norm_wip();
                o.push(("impl_self".into(), J::Str(st.to_string())));
            }
            // resolution
            let env = TypingEnv::post_analysis(tcx, body_def);
            if let Ok(Some(inst)) = Instance::try_resolve(tcx, env, *did, args) {
                let rd = inst.def_id();
                o.push(("resolved".into(), J::Str(tcx.def_path_str(rd))));
                o.push(("resolved_local".into(), J::Bool(rd.is_local())));
                o.push(("resolved_kind".into(), J::Str(format!("{:?}", inst.def).split('(').next().unwrap_or("").to_string())));
            }
            o.push(("local".into(), J::Bool(did.is_local())));
        }
        ty::Closure(did, _) => {
            o.push(("closure".into(), J::Str(tcx.def_path_str(*did))));
        }
        _ => {
            o.push(("indirect".into(), J::Str(fty.to_string())));
            if let Operand::Copy(p) | Operand::Move(p) = func {
                o.push(("pl".into(), place_json(tcx, body, p)));
            }
        }
    }
    J::Obj(o)
}

fn block_json<'tcx>(
    tcx: TyCtxt<'tcx>,
    def: DefId,
    body: &Body<'tcx>,
    bb: &BasicBlockData<'tcx>,
) -> J {
    let mut stmts: Vec<J> = Vec::new();
    for st in &bb.statements {
        match &st.kind {
            StatementKind::Assign(b) => {
                let (pl, rv) = &**b;
                stmts.push(J::Obj(vec![
                    ("k".into(), J::Str("assign".into())),
                    ("dst".into(), place_json(tcx, body, pl)),
                    ("rv".into(), rvalue_json(tcx, body, def, rv)),
                    ("sp".into(), span_json(tcx, st.source_info.span)),
                ]));
            }
            StatementKind::SetDiscriminant { place, variant_index } => {
                stmts.push(J::Obj(vec![
                    ("k".into(), J::Str("setdiscr".into())),
                    ("dst".into(), place_json(tcx, body, place)),
                    ("variant".into(), J::Num(variant_index.as_usize() as i128)),
                    ("sp".into(), span_json(tcx, st.source_info.span)),
                ]));
            }
            StatementKind::Intrinsic(i) => {
                stmts.push(J::Obj(vec![
                    ("k".into(), J::Str("intrinsic".into())),
                    ("text".into(), J::Str(format!("{:?}", i))),
                    ("sp".into(), span_json(tcx, st.source_info.span)),
                ]));
            }
            _ => {}
        }
    }
    let term = bb.terminator();
    let tsp = span_json(tcx, term.source_info.span);
    let bbn = |b: mir::BasicBlock| J::Num(b.as_usize() as i128);
    let mut t: Vec<(String, J)> = Vec::new();
    match &term.kind {
        TerminatorKind::Goto { target } => {
            t.push(("k".into(), J::Str("goto".into())));
            t.push(("target".into(), bbn(*target)));
        }
        TerminatorKind::SwitchInt { discr, targets } => {
            t.push(("k".into(), J::Str("switch".into())));
            t.push(("discr".into(), operand_json(tcx, body, def, discr)));
            let mut arms: Vec<J> = Vec::new();
            for (v, b) in targets.iter() {
                let vj = if v <= i128::MAX as u128 { J::Num(v as i128) } else { J::Str(v.to_string()) };
                arms.push(J::Arr(vec![vj, bbn(b)]));
            }
            t.push(("arms".into(), J::Arr(arms)));
            t.push(("otherwise".into(), bbn(targets.otherwise())));
            t.push(("discr_ty".into(), J::Str(discr.ty(&body.local_decls, tcx).to_string())));
        }
        TerminatorKind::Return => t.push(("k".into(), J::Str("return".into()))),
        TerminatorKind::Unreachable => t.push(("k".into(), J::Str("unreachable".into()))),
        TerminatorKind::UnwindResume => t.push(("k".into(), J::Str("resume".into()))),
        TerminatorKind::UnwindTerminate(_) => t.push(("k".into(), J::Str("terminate".into()))),
        TerminatorKind::Drop { place, target, unwind, .. } => {
            t.push(("k".into(), J::Str("drop".into())));
            t.push(("pl".into(), place_json(tcx, body, place)));
            t.push(("target".into(), bbn(*target)));
            if let mir::UnwindAction::Cleanup(b) = unwind {
                t.push(("cleanup".into(), bbn(*b)));
            }
        }
        TerminatorKind::Call { func, args, destination, target, unwind, fn_span, .. } => {
            t.push(("k".into(), J::Str("call".into())));
            t.push(("callee".into(), callee_json(tcx, def, func, body)));
            t.push((
                "args".into(),
                J::Arr(args.iter().map(|a| operand_json(tcx, body, def, &a.node)).collect()),
            ));
            t.push((
                "arg_tys".into(),
                J::Arr(
                    args.iter()
                        .map(|a| J::Str(a.node.ty(&body.local_decls, tcx).to_string()))
                        .collect(),
                ),
            ));
            t.push(("dst".into(), place_json(tcx, body, destination)));
            match target {
                Some(b) => t.push(("target".into(), bbn(*b))),
                None => t.push(("target".into(), J::Null)),
            }
            if let mir::UnwindAction::Cleanup(b) = unwind {
                t.push(("cleanup".into(), bbn(*b)));
            }
            t.push(("fn_sp".into(), span_json(tcx, *fn_span)));
        }
        TerminatorKind::Assert { cond, expected, msg, target, unwind } => {
            t.push(("k".into(), J::Str("assert".into())));
            t.push(("cond".into(), operand_json(tcx, body, def, cond)));
            t.push(("expected".into(), J::Bool(*expected)));
            let (kind, ops): (String, Vec<J>) = match &**msg {
                mir::AssertKind::BoundsCheck { len, index } => (
                    "BoundsCheck".into(),
                    vec![operand_json(tcx, body, def, len), operand_json(tcx, body, def, index)],
                ),
                mir::AssertKind::Overflow(op, a, b) => (
                    format!("Overflow:{:?}", op),
                    vec![operand_json(tcx, body, def, a), operand_json(tcx, body, def, b)],
                ),
                mir::AssertKind::OverflowNeg(a) => ("OverflowNeg".into(), vec![operand_json(tcx, body, def, a)]),
                mir::AssertKind::DivisionByZero(a) => ("DivisionByZero".into(), vec![operand_json(tcx, body, def, a)]),
                mir::AssertKind::RemainderByZero(a) => ("RemainderByZero".into(), vec![operand_json(tcx, body, def, a)]),
                other => (format!("{:?}", other).split('(').next().unwrap_or("").to_string(), vec![]),
            };
            t.push(("msg".into(), J::Str(kind)));
            t.push(("ops".into(), J::Arr(ops)));
            t.push(("target".into(), bbn(*target)));
            if let mir::UnwindAction::Cleanup(b) = unwind {
                t.push(("cleanup".into(), bbn(*b)));
            }
        }
        TerminatorKind::FalseEdge { real_target, .. } => {
            t.push(("k".into(), J::Str("goto".into())));
            t.push(("target".into(), bbn(*real_target)));
        }
        TerminatorKind::FalseUnwind { real_target, .. } => {
            t.push(("k".into(), J::Str("goto".into())));
            t.push(("target".into(), bbn(*real_target)));
        }
        other => {
            t.push(("k".into(), J::Str("other".into())));
            t.push(("text".into(), J::Str(format!("{:?}", other))));
        }
    }
    t.push(("sp".into(), tsp));
    J::Obj(vec![
        ("stmts".into(), J::Arr(stmts)),
        ("term".into(), J::Obj(t)),
        ("cleanup".into(), J::Bool(bb.is_cleanup)),
    ])
}

fn body_json<'tcx>(tcx: TyCtxt<'tcx>, def: DefId, body: &Body<'tcx>) -> Vec<(String, J)> {
    let mut locals: Vec<J> = Vec::new();
    // debug names
    let mut names: std::collections::HashMap<usize, String> = std::collections::HashMap::new();
    let mut upvar_names: Vec<J> = Vec::new();
    for vdi in &body.var_debug_info {
        if let mir::VarDebugInfoContents::Place(p) = &vdi.value {
            if p.projection.is_empty() {
                names.entry(p.local.as_usize()).or_insert_with(|| vdi.name.to_string());
            } else {
                upvar_names.push(J::Obj(vec![
                    ("name".into(), J::Str(vdi.name.to_string())),
                    ("pl".into(), place_json(tcx, body, p)),
                ]));
            }
        }
    }
    for (l, decl) in body.local_decls.iter_enumerated() {
        let mut o = vec![
            ("ty".to_string(), J::Str(decl.ty.to_string())),
            ("flags".to_string(), ty_flags(tcx, decl.ty)),
            ("mutable".to_string(), J::Bool(decl.mutability.is_mut())),
        ];
        if let Some(n) = names.get(&l.as_usize()) {
            o.push(("name".to_string(), J::Str(n.clone())));
        }
        locals.push(J::Obj(o));
    }
    let blocks: Vec<J> = body.basic_blocks.iter().map(|bb| block_json(tcx, def, body, bb)).collect();
    vec![
        ("arg_count".into(), J::Num(body.arg_count as i128)),
        ("locals".into(), J::Arr(locals)),
        ("upvar_names".into(), J::Arr(upvar_names)),
        ("blocks".into(), J::Arr(blocks)),
    ]
}

// --------------------------------------------------------------------------- HIR: unsafe blocks
struct UnsafeVisitor<'tcx> {
    tcx: TyCtxt<'tcx>,
    out: Vec<J>,
    owner: String,
}
impl<'tcx> hir::intravisit::Visitor<'tcx> for UnsafeVisitor<'tcx> {
    type NestedFilter = rustc_middle::hir::nested_filter::OnlyBodies;
    fn maybe_tcx(&mut self) -> Self::MaybeTyCtxt {
        self.tcx
    }
    fn visit_block(&mut self, b: &'tcx hir::Block<'tcx>) {
        if let hir::BlockCheckMode::UnsafeBlock(src) = b.rules {
            self.out.push(J::Obj(vec![
                ("owner".into(), J::Str(self.owner.clone())),
                ("source".into(), J::Str(format!("{:?}", src))),
                ("sp".into(), span_json(self.tcx, b.span)),
            ]));
        }
        hir::intravisit::walk_block(self, b);
    }
}

fn extract<'tcx>(tcx: TyCtxt<'tcx>, crate_name: &str) -> J {
    let mut bodies: Vec<J> = Vec::new();
    let mut unsafe_blocks: Vec<J> = Vec::new();
    let mut consts: Vec<J> = Vec::new();
    for ldid in tcx.mir_keys(()).iter() {
        let ldid: LocalDefId = *ldid;
        let did = ldid.to_def_id();
        let kind = tcx.def_kind(did);
        if matches!(kind, DefKind::Const { .. } | DefKind::AssocConst { .. }) {
            // named constants of the crate: their (compile-time) MIR, so that a use of `const AXIS: Axis = Axis(1)` can be read as
            // the value it names
            let body = tcx.mir_for_ctfe(did);
            let mut o: Vec<(String, J)> = vec![
                ("key".into(), J::Str(tcx.def_path_str(did))),
                ("kind".into(), J::Str("Const".into())),
                ("sp".into(), span_json(tcx, tcx.def_span(did))),
                ("body_sp".into(), span_json(tcx, body.span)),
                ("name".into(), J::Str(tcx.item_name(did).to_string())),
            ];
            o.extend(body_json(tcx, did, body));
            o.push(("promoted".into(), J::Arr(Vec::new())));
            consts.push(J::Obj(o));
            continue;
        }
        if !matches!(kind, DefKind::Fn | DefKind::AssocFn | DefKind::Closure) {
            continue;
        }
        let body = tcx.optimized_mir(did);
        let key = tcx.def_path_str(did);
        let mut o: Vec<(String, J)> = vec![
            ("key".into(), J::Str(key.clone())),
            ("kind".into(), J::Str(format!("{:?}", kind))),
            ("sp".into(), span_json(tcx, tcx.def_span(did))),
            ("body_sp".into(), span_json(tcx, body.span)),
        ];
        // in cfg(test) module?  (we run `check --lib` without --tests, so no)
        if matches!(kind, DefKind::Fn | DefKind::AssocFn) {
            let vis = tcx.visibility(did);
            o.push(("vis".into(), J::Str(format!("{:?}", vis))));
            o.push(("public".into(), J::Bool(vis.is_public())));
            let sig = tcx.fn_sig(did).instantiate_identity().skip_norm_wip();
            o.push(("unsafe_fn".into(), J::Bool(!sig.safety().is_safe())));
            o.push(("sig".into(), J::Str(sig.to_string())));
            let inputs: Vec<J> = sig.skip_binder().inputs().iter().map(|t| J::Str(t.to_string())).collect();
            o.push(("inputs".into(), J::Arr(inputs)));
            o.push(("output".into(), J::Str(sig.skip_binder().output().to_string())));
            // predicates
            let preds = tcx.predicates_of(did);
            let mut ps: Vec<J> = Vec::new();
            for (p, _) in preds.predicates {
                ps.push(J::Str(p.to_string()));
            }
            let mut parent = preds.parent;
            while let Some(pd) = parent {
                let pp = tcx.predicates_of(pd);
                for (p, _) in pp.predicates {
                    ps.push(J::Str(p.to_string()));
                }
                parent = pp.parent;
            }
            o.push(("preds".into(), J::Arr(ps)));
            if let Some(tr) = tcx.trait_of_assoc(did) {
                o.push(("trait_decl".into(), J::Str(tcx.def_path_str(tr))));
            }
            if let Some(imp) = tcx.impl_of_assoc(did) {
                let st = tcx.type_of(imp).instantiate_identity().skip_norm_wip();
                o.push(("impl_self".into(), J::Str(st.to_string())));
                if let Some(tr) = tcx.impl_opt_trait_ref(imp) {
                    let tr = tr.instantiate_identity().skip_norm_wip();
                    o.push(("impl_trait".into(), J::Str(tcx.def_path_str(tr.def_id))));
                    o.push(("impl_trait_ref".into(), J::Str(tr.to_string())));
                }
            }
            o.push(("name".into(), J::Str(tcx.item_name(did).to_string())));
        } else {
            // closure: parent
            let parent = tcx.typeck_root_def_id(did);
            o.push(("root".into(), J::Str(tcx.def_path_str(parent))));
            let p = tcx.parent(did);
            o.push(("parent".into(), J::Str(tcx.def_path_str(p))));
        }
        o.extend(body_json(tcx, did, body));
        // promoteds
        let proms = tcx.promoted_mir(did);
        let mut pj: Vec<J> = Vec::new();
        for pb in proms.iter() {
            pj.push(J::Obj(body_json(tcx, did, pb)));
        }
        o.push(("promoted".into(), J::Arr(pj)));
        bodies.push(J::Obj(o));

        // unsafe blocks inside this body (HIR walk, only for non-closures: closures are nested)
        if matches!(kind, DefKind::Fn | DefKind::AssocFn) {
            if let Some(bid) = tcx.hir_maybe_body_owned_by(ldid) {
                let mut v = UnsafeVisitor { tcx, out: Vec::new(), owner: key.clone() };
                hir::intravisit::Visitor::visit_body(&mut v, bid);
                unsafe_blocks.extend(v.out);
            }
        }
    }

    // ADTs, impls, traits
    let mut adts: Vec<J> = Vec::new();
    let mut impls: Vec<J> = Vec::new();
    let mut traits: Vec<J> = Vec::new();
    let mut fns_no_body: Vec<J> = Vec::new();
    for id in tcx.hir_free_items() {
        let did = id.owner_id.to_def_id();
        match tcx.def_kind(did) {
            DefKind::Struct | DefKind::Enum | DefKind::Union => {
                let adt = tcx.adt_def(did);
                let mut variants: Vec<J> = Vec::new();
                for v in adt.variants() {
                    let fields: Vec<J> = v
                        .fields
                        .iter()
                        .map(|f| {
                            J::Obj(vec![
                                ("name".into(), J::Str(f.name.to_string())),
                                ("public".into(), J::Bool(f.vis.is_public())),
                                ("vis".into(), J::Str(format!("{:?}", f.vis))),
                                (
                                    "ty".into(),
                                    J::Str(tcx.type_of(f.did).instantiate_identity().skip_norm_wip().to_string()),
                                ),
                            ])
                        })
                        .collect();
                    variants.push(J::Obj(vec![
                        ("name".into(), J::Str(v.name.to_string())),
                        ("fields".into(), J::Arr(fields)),
                    ]));
                }
                let repr = adt.repr();
                adts.push(J::Obj(vec![
                    ("path".into(), J::Str(tcx.def_path_str(did))),
                    ("kind".into(), J::Str(format!("{:?}", tcx.def_kind(did)))),
                    ("public".into(), J::Bool(tcx.visibility(did).is_public())),
                    ("vis".into(), J::Str(format!("{:?}", tcx.visibility(did)))),
                    ("transparent".into(), J::Bool(repr.transparent())),
                    ("repr_c".into(), J::Bool(repr.c())),
                    ("variants".into(), J::Arr(variants)),
                    ("sp".into(), span_json(tcx, tcx.def_span(did))),
                ]));
            }
            DefKind::Impl { .. } => {
                let st = tcx.type_of(did).instantiate_identity().skip_norm_wip();
                let mut o = vec![
                    ("self_ty".to_string(), J::Str(st.to_string())),
                    ("self_flags".to_string(), ty_flags(tcx, st)),
                    ("sp".to_string(), span_json(tcx, tcx.def_span(did))),
                ];
                if let Some(tr) = tcx.impl_opt_trait_ref(did) {
                    let tr = tr.instantiate_identity().skip_norm_wip();
                    o.push(("trait".into(), J::Str(tcx.def_path_str(tr.def_id))));
                    o.push(("trait_ref".into(), J::Str(tr.to_string())));
                    o.push(("trait_local".into(), J::Bool(tr.def_id.is_local())));
                }
                let preds = tcx.predicates_of(did);
                o.push((
                    "preds".into(),
                    J::Arr(preds.predicates.iter().map(|(p, _)| J::Str(p.to_string())).collect()),
                ));
                let items: Vec<J> = tcx
                    .associated_item_def_ids(did)
                    .iter()
                    .map(|d| J::Str(tcx.def_path_str(*d)))
                    .collect();
                o.push(("items".into(), J::Arr(items)));
                impls.push(J::Obj(o));
            }
            DefKind::Trait => {
                let items: Vec<J> = tcx
                    .associated_item_def_ids(did)
                    .iter()
                    .map(|d| {
                        J::Obj(vec![
                            ("path".into(), J::Str(tcx.def_path_str(*d))),
                            ("name".into(), J::Str(tcx.item_name(*d).to_string())),
                            ("kind".into(), J::Str(format!("{:?}", tcx.def_kind(*d)))),
                        ])
                    })
                    .collect();
                traits.push(J::Obj(vec![
                    ("path".into(), J::Str(tcx.def_path_str(did))),
                    ("public".into(), J::Bool(tcx.visibility(did).is_public())),
                    ("items".into(), J::Arr(items)),
                ]));
            }
            DefKind::Fn => {
                let _ = &mut fns_no_body;
            }
            _ => {}
        }
    }

    // effective visibility (reachable from outside the crate)
    let ev = tcx.effective_visibilities(());
    let mut exported: Vec<J> = Vec::new();
    for ldid in tcx.mir_keys(()).iter() {
        let did = ldid.to_def_id();
        if matches!(tcx.def_kind(did), DefKind::Fn | DefKind::AssocFn) && ev.is_reachable(*ldid) {
            exported.push(J::Str(tcx.def_path_str(did)));
        }
    }

    J::Obj(vec![
        ("crate".into(), J::Str(crate_name.to_string())),
        ("schema".into(), J::Num(1)),
        ("bodies".into(), J::Arr(bodies)),
        ("consts".into(), J::Arr(consts)),
        ("unsafe_blocks".into(), J::Arr(unsafe_blocks)),
        ("adts".into(), J::Arr(adts)),
        ("impls".into(), J::Arr(impls)),
        ("traits".into(), J::Arr(traits)),
        ("exported".into(), J::Arr(exported)),
    ])
}
